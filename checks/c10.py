"""C10 — eliminating Dirichlet dofs is algebraically exact for any index set.

Monitors: an icontract postcondition on the real RestrictedLinearSystem.__init__ (partition of the
dofs, restricted matrix/right-hand side by definition, prescribed values reach the right dofs in
the given order), algebraic oracles on solve+complete, and reference evaluation (independent
tensor-product evaluator) of the boundary traces produced by compute_dirichlet_bc(s),
Multipatch.compute_dirichlet_bcs and compute_initial_condition_01.
"""
import itertools
import numpy as np

PROPERTY = 'C10'
LEVEL = 'exploration'
RULE = ('linear systems n<=14 (dense/sparse A, vector/scalar b) x index sets: all orders of all subsets up to size 3 of range(5) '
        '(exhaustive family), random unsorted subsets, all-but-one, empty; scalar/array values; optional elim_rows; boundary '
        'conditions on all faces of random 1D-3D tensor spaces (mixed degrees, repeated knots) with scalar/vector/constant data on '
        'identity/affine/annulus geometries, multipatch, and space-time initial conditions; distinct by full descriptor; non-trivial '
        'if at least one dof is constrained')
MIN_NONTRIVIAL = {'quick': 400, 'thorough': 8000}
REQUIRED_COUNTERS = ['oracle:inputs_modified_after_construction', 'contract:rls_init', 'oracle:prescribed_values', 'oracle:free_equations', 'oracle:bc_trace', 'oracle:bc_dofs',
                     'oracle:initial_condition', 'oracle:combine_bcs']
ASSUMPTIONS = ['geometry evaluation (geo.boundary, grid_eval) is trusted here and covered by C07',
               'residual tolerance 1e-10 x cond(A_restricted) x scale']
_state = {}

class PostBroken(Exception):
    pass

def _dense(A):
    return A.toarray() if hasattr(A, 'toarray') else np.asarray(A)

def _rls_post(self, A, b, bcs, elim_rows=None):
    rec = _state['rec']; case = _state.get('case', {})
    rec.count('contract:rls_init')
    idx = np.asarray(bcs[0], dtype=int); vals = bcs[1]
    n = A.shape[1]; m = A.shape[0]
    Ad = _dense(A).astype(float)
    sig = {'route': 'RestrictedLinearSystem', 'sorted': bool(np.all(np.diff(idx) > 0)), 'elim_rows': elim_rows is not None}
    def bad(what, **w):
        rec.violation(dict(sig, oracle=what), case, w)
    free = np.array([i for i in range(n) if i not in set(idx.tolist())], dtype=int)
    Rf = _dense(self.R_free); Re = _dense(self.R_elim)
    E = np.eye(n)
    if Rf.shape != (len(free), n) or not np.array_equal(Rf, E[free]):
        bad('R_free selects exactly the unconstrained dofs')
    if Re.shape[0] != len(idx) or not np.array_equal(Re.T @ Re + Rf.T @ Rf, E):
        bad('R_free/R_elim partition the dofs')
    # prescribed values in the given order
    vv = np.broadcast_to(np.asarray(vals, dtype=float), idx.shape)
    lift = np.zeros(n); lift[idx] = vv
    got = np.asarray(self.complete(np.zeros(len(free))), dtype=float)
    rec.count('oracle:prescribed_values')
    if got.shape != (n,) or not np.array_equal(got, lift):
        bad('complete(0) carries value k at constrained dof k', idx=idx.tolist(), vals=vv.tolist(), got=got.tolist())
    rows_elim = np.asarray(sorted(elim_rows), dtype=int) if elim_rows is not None else idx
    rows_free = np.array([i for i in range(m) if i not in set(rows_elim.tolist())], dtype=int)
    bb = np.broadcast_to(np.asarray(b, dtype=float), (m,))
    refA = Ad[np.ix_(rows_free, free)]
    refb = (bb - Ad @ lift)[rows_free]
    if _dense(self.A).shape != refA.shape or np.abs(_dense(self.A) - refA).max(initial=0) > 1e-14 * (np.abs(Ad).max() + 1):
        bad('restricted matrix = A[non-eliminated rows, free dofs]')
    if np.shape(self.b) != refb.shape or np.abs(np.asarray(self.b) - refb).max(initial=0) > 1e-13 * (np.abs(Ad) @ np.abs(lift) + np.abs(bb)).max(initial=1):
        bad('restricted rhs = (b - A*lift)[non-eliminated rows]')
    return True

def setup(rec, tier):
    import icontract
    from pyiga import assemble
    _state['rec'] = rec
    cls = assemble.RestrictedLinearSystem
    if not getattr(cls.__init__, '_verif', False):
        f = icontract.ensure(_rls_post, error=PostBroken)(cls.__init__)
        f._verif = True
        cls.__init__ = f

def cases(tier, seed):
    # exhaustive family: all orders of all subsets of size <= 3 of range(5), n = 6
    for r in range(0, 4):
        for sub in itertools.combinations(range(5), r):
            for perm in itertools.permutations(sub):
                yield {'kind': 'rls', 'mode': 'exhaustive', 'n': 6, 'idx': list(perm), 'seed': seed, 'i': 0}
    n = {'quick': 500, 'thorough': 90000}[tier]
    for i in range(n):
        yield {'kind': 'rls', 'mode': 'random', 'seed': seed, 'i': i}
    nb = {'quick': 120, 'thorough': 12000}[tier]
    for i in range(nb):
        yield {'kind': 'bc', 'seed': seed, 'i': i}
    ni = {'quick': 40, 'thorough': 4000}[tier]
    for i in range(ni):
        yield {'kind': 'ic01', 'seed': seed, 'i': i}
    nm = {'quick': 16, 'thorough': 1500}[tier]
    for i in range(nm):
        yield {'kind': 'mpbc', 'seed': seed, 'i': i}
    if tier == 'thorough':
        yield {'kind': 'suite'}      # the repository's own tests as a further workload, run under this check's monitors

def run_case(rec, case):
    _state['case'] = case
    k = case['kind']
    if k == 'suite':
        from verif.suite import run_suite
        rec.case(case, nontrivial=True); run_suite(rec, 'c10', case); return
    if k == 'rls': _rls(rec, case)
    elif k == 'bc': _bc(rec, case)
    elif k == 'ic01': _ic01(rec, case)
    elif k == 'mpbc': _mpbc(rec, case)

def _rls(rec, case):
    import scipy.sparse
    from pyiga import assemble
    from verif.gen import rng_for
    from verif.api import guarded
    rng = rng_for('C10rls', case['seed'], case['i'], tuple(case.get('idx', ())))
    if case['mode'] == 'exhaustive':
        n = case['n']; idx = np.array(case['idx'], dtype=int)
    else:
        n = int(rng.integers(2, 15))
        mode = int(rng.integers(0, 5))
        if mode == 0: idx = rng.permutation(n)[:int(rng.integers(1, n))]
        elif mode == 1: idx = np.sort(rng.permutation(n)[:int(rng.integers(1, n))])
        elif mode == 2: idx = rng.permutation(n)[:n - 1]           # all dofs but one
        elif mode == 3: idx = np.zeros(0, dtype=int)                 # empty
        else: idx = np.sort(rng.permutation(n)[:int(rng.integers(1, n))])[::-1].copy()
    sparse = bool(rng.integers(0, 2))
    A = rng.standard_normal((n, n)) + n * np.eye(n)
    if rng.random() < 0.5:
        A = A @ A.T / n + np.eye(n)
    A[np.abs(A) < 0.3] = 0.0
    A += n * np.eye(n)
    scalar_vals = bool(rng.random() < 0.2) and len(idx) > 0
    vals = float(rng.standard_normal()) if scalar_vals else rng.standard_normal(len(idx))
    scalar_b = bool(rng.random() < 0.2)
    b = 0.0 if scalar_b else rng.standard_normal(n)
    use_er = bool(rng.random() < 0.3)
    er = rng.permutation(n)[:len(idx)].tolist() if use_er else None
    desc = dict(case, n=n, idx=idx.tolist(), sparse=sparse, scalar_vals=scalar_vals, scalar_b=scalar_b, elim_rows=er)
    _state['case'] = desc
    rec.case(desc, nontrivial=len(idx) > 0)
    sig = {'route': 'RestrictedLinearSystem', 'sorted': bool(np.all(np.diff(idx) > 0)), 'elim_rows': use_er}
    Aop = scipy.sparse.csr_matrix(A) if sparse else A
    # the caller's arrays are its own: a time-stepping loop refills its buffers after the system has been built
    idx_in = idx.copy(); vals_in = np.array(vals, copy=True) if not scalar_vals else vals; b_in = np.array(b, copy=True) if not scalar_b else b
    ok, L = guarded(rec, desc, dict(sig, stage='construct'), assemble.RestrictedLinearSystem, Aop, b_in, (idx_in, vals_in), er)
    if not ok: return
    if case.get('i', 0) % 2 == 0:
        rec.count('oracle:inputs_modified_after_construction')
        if not scalar_vals and len(idx): vals_in[:] = 1e3 + np.arange(len(idx))
        if not scalar_b: b_in[:] = -7.0
        if len(idx): idx_in[:] = idx_in[::-1].copy()
    nfree = n - len(idx)
    LA = _dense(L.A); Lb = np.asarray(L.b, dtype=float)
    if LA.shape != (nfree, nfree) or Lb.shape != (nfree,):
        rec.violation(dict(sig, oracle='restricted system shape'), desc, {'A': list(LA.shape), 'b': list(Lb.shape)}); return
    cond = np.linalg.cond(LA) if nfree else 1.0
    if cond > 1e8:
        return
    u_free = np.linalg.solve(LA, Lb) if nfree else np.zeros(0)
    ok, u = guarded(rec, desc, dict(sig, stage='complete'), L.complete, u_free)
    if not ok: return
    u = np.asarray(u, dtype=float)
    vv = np.broadcast_to(np.asarray(vals, dtype=float), idx.shape)
    rec.count('oracle:prescribed_values')
    if u.shape != (n,) or not np.array_equal(u[idx], vv):
        rec.violation(dict(sig, oracle='completed solution takes the prescribed value at each constrained dof'), desc,
                      {'idx': idx.tolist(), 'vals': vv.tolist(), 'got': u[idx].tolist() if u.shape == (n,) else list(u.shape)})
    keep = np.array([i for i in range(n) if i not in set((er if use_er else idx.tolist()))], dtype=int)
    bb = np.broadcast_to(np.asarray(b, dtype=float), (n,))
    res = (A @ u - bb)[keep]
    scale = (np.abs(A) @ np.abs(u) + np.abs(bb)).max()
    rec.check_close('free_equations', float(np.abs(res).max(initial=0.0)), float(1e-12 * cond * scale + 1e-300), sig, desc)
    # mutual consistency
    x = rng.standard_normal(nfree); y = rng.standard_normal(n); B = rng.standard_normal((n, n))
    free = np.array([i for i in range(n) if i not in set(idx.tolist())], dtype=int)
    rec.count('oracle:consistency')
    def same(a, b_): return np.shape(a) == np.shape(b_) and np.array_equal(np.asarray(a), b_)
    if not same(L.restrict(y), y[free]): rec.violation(dict(sig, oracle='restrict = selection of free dofs'), desc, {})
    ext = np.zeros(n); ext[free] = x
    if not same(L.extend(x), ext): rec.violation(dict(sig, oracle='extend pads with zeros'), desc, {})
    if not same(L.restrict(L.extend(x)), x): rec.violation(dict(sig, oracle='restrict(extend(u)) = u'), desc, {})
    if not same(L.restrict(L.complete(x)), x): rec.violation(dict(sig, oracle='restrict(complete(u)) = u'), desc, {})
    RB = _dense(L.restrict_matrix(scipy.sparse.csr_matrix(B) if sparse else B))
    if RB.shape != (len(keep), nfree) or np.abs(RB - B[np.ix_(keep, free)]).max(initial=0) > 1e-14 * np.abs(B).max():
        rec.violation(dict(sig, oracle='restrict_matrix(B) = B[kept rows, free dofs]'), desc, {})
    if not same(L.restrict_rhs(y), y[keep]): rec.violation(dict(sig, oracle='restrict_rhs'), desc, {})

# ---- boundary conditions -----------------------------------------------------------------------
def _space(rng, dim, pmax=3):
    from verif.gen import knot_case, make_kv
    kcs = [knot_case(rng, pmin=1, pmax=pmax, max_spans=3) for _ in range(dim)]
    return kcs, tuple(make_kv(kc) for kc in kcs)

def _geo(rng, dim, kind):
    from pyiga import geometry
    if kind == 'identity':
        return geometry.unit_square() if dim == 2 else (geometry.unit_cube() if dim == 3 else geometry.line_segment(0.0, 1.0))
    if kind == 'affine':
        g = geometry.unit_square() if dim == 2 else (geometry.unit_cube() if dim == 3 else geometry.line_segment(0.0, 1.0))
        return g.scale(rng.uniform(0.5, 2.0, size=dim) if dim > 1 else float(rng.uniform(0.5, 2))).translate(rng.uniform(-1, 1, size=dim) if dim > 1 else float(rng.uniform(-1, 1)))
    if kind == 'annulus':
        g = geometry.quarter_annulus()
        return g if dim == 2 else geometry.tensor_product(geometry.line_segment(0.0, 1.5), g)
    raise ValueError(kind)

def _face_points(kvs, ax, side):
    """Greville grid of the face basis, plus the fixed coordinate, in axis order."""
    from refmodels import bsp
    grids = []
    for d, kv in enumerate(kvs):
        if d == ax:
            grids.append(np.array([kv.kv[0] if side == 0 else kv.kv[-1]]))
        else:
            grids.append(np.array([float(x) for x in bsp.greville(kv.kv.tolist(), kv.p)]))
    return grids

def _gfun(rng, dim, ncomp):
    c = rng.standard_normal((max(ncomp, 1), dim + 1))
    def g(*X):
        outs = []
        for k in range(max(ncomp, 1)):
            v = c[k, 0] + sum(c[k, 1 + d] * X[d] for d in range(dim)) + 0.3 * X[0] * X[-1]
            outs.append(v)
        return outs[0] if ncomp == 0 else tuple(outs)
    return g

def _bc(rec, case):
    from pyiga import assemble, bspline
    from refmodels import tp
    from verif.gen import rng_for
    from verif.api import guarded
    rng = rng_for('C10bc', case['seed'], case['i'])
    dim = int(rng.choice([1, 2, 2, 2, 3]))
    gk = str(rng.choice(['identity', 'affine', 'annulus'])) if dim >= 2 else str(rng.choice(['identity', 'affine']))
    kcs, kvs = _space(rng, dim)
    geo = _geo(rng, dim, gk)
    ncomp = int(rng.choice([0, 0, 2, 3]))
    const = bool(rng.random() < 0.15)
    ax = int(rng.integers(0, dim)); side = int(rng.integers(0, 2))
    names = {(dim - 1, 0): 'left', (dim - 1, 1): 'right', (dim - 2, 0): 'bottom', (dim - 2, 1): 'top', (dim - 3, 0): 'front', (dim - 3, 1): 'back'}
    use_name = bool(rng.random() < 0.4) and (ax, side) in names and ax >= 0
    bdspec = names[(ax, side)] if use_name else (ax, side)
    desc = dict(case, dim=dim, geo=gk, kvs=kcs, ncomp=ncomp, const=const, bdspec=bdspec if isinstance(bdspec, str) else list(bdspec))
    _state['case'] = desc
    rec.case(desc, nontrivial=True)
    sig = {'route': 'compute_dirichlet_bc', 'dim': dim, 'geo': gk, 'vector': ncomp > 0, 'const': const}
    g = _gfun(rng, dim, ncomp)
    cval = float(rng.standard_normal())
    if const: ncomp = 0
    ok, r = guarded(rec, desc, sig, assemble.compute_dirichlet_bc, kvs, geo, bdspec, cval if const else g)
    if not ok: return
    idx, vals = np.asarray(r[0]), np.asarray(r[1], dtype=float)
    N = tuple(kv.numdofs for kv in kvs); NN = int(np.prod(N))
    # reference face dofs (raveled, C order) by index arithmetic
    sl = [np.arange(n) for n in N]; sl[ax] = np.array([0 if side == 0 else N[ax] - 1])
    face = np.ravel_multi_index(np.meshgrid(*sl, indexing='ij'), N).ravel()
    ref_idx = np.concatenate([face + j * NN for j in range(max(ncomp, 1))])
    rec.count('oracle:bc_dofs')
    if sorted(idx.tolist()) != sorted(ref_idx.tolist()) or len(set(idx.tolist())) != len(idx):
        rec.violation(dict(sig, oracle='every dof of the face exactly once (blocked numbering)'), desc, {'got': idx.tolist()[:20], 'ref': ref_idx.tolist()[:20]})
        return
    # trace of the spline with these coefficients at the face Greville points = data at the physical points
    grids = _face_points(kvs, ax, side)
    phys = np.asarray(geo.grid_eval(grids), dtype=float)     # shape grid x dim
    if dim == 1: phys = phys.reshape(phys.shape[0], -1)
    X = tuple(phys[..., d] for d in range(phys.shape[-1]))
    want = np.full(phys.shape[:-1], cval) if const else g(*X)
    lookup = dict(zip(idx.tolist(), vals.tolist()))
    worst = 0.0; scale = 1.0
    for j in range(max(ncomp, 1)):
        coef = np.zeros(NN)
        coef[face] = [lookup[int(f + j * NN)] for f in face]
        val = tp.grid_eval(tp.kvs_of(kvs), coef.reshape(N), grids)
        w = np.asarray(want[j] if ncomp > 0 else want, dtype=float)
        w = np.broadcast_to(w, val.shape)
        worst = max(worst, float(np.abs(val - w).max())); scale = max(scale, float(np.abs(w).max()))
    rec.check_close('bc_trace', worst, 1e-10 * scale, sig, desc)
    # several faces at once and combination
    if dim >= 2 and not const:
        conds = [((a, s), g) for a in range(dim) for s in (0, 1) if rng.random() < 0.6] or [((0, 0), g)]
        ok, r2 = guarded(rec, desc, dict(sig, route='compute_dirichlet_bcs'), assemble.compute_dirichlet_bcs, kvs, geo, conds)
        ok3, r3 = guarded(rec, desc, dict(sig, route='compute_dirichlet_bcs_all'), assemble.compute_dirichlet_bcs, kvs, geo, ('all', g))
        for (okk, rr, cl) in ((ok, r2, conds), (ok3, r3, [((a, s), g) for a in range(dim) for s in (0, 1)])):
            if not okk: continue
            rec.count('oracle:combine_bcs')
            I2 = np.asarray(rr[0]); V2 = np.asarray(rr[1])
            singles = [assemble.compute_dirichlet_bc(kvs, geo, bd, gg) for bd, gg in cl]
            allidx = np.concatenate([s[0] for s in singles])
            if len(set(I2.tolist())) != len(I2) or set(I2.tolist()) != set(allidx.tolist()):
                rec.violation(dict(sig, route='compute_dirichlet_bcs', oracle='one entry per boundary dof'), desc, {}); continue
            for i, v in zip(I2.tolist(), V2.tolist()):
                cand = [s[1][np.flatnonzero(s[0] == i)[0]] for s in singles if i in set(s[0].tolist())]
                if not any(v == c for c in cand):
                    rec.violation(dict(sig, route='combine_bcs', oracle='value taken from one of the conditions'), desc, {'dof': i}); break
                if max(cand) - min(cand) > 1e-9 * (abs(v) + 1):
                    rec.violation(dict(sig, route='compute_dirichlet_bcs', oracle='shared dofs carry consistent values'), desc, {'dof': i, 'cand': cand}); break

def _ic01(rec, case):
    from pyiga import assemble, geometry
    from refmodels import tp, bsp
    from verif.gen import rng_for, knot_case, make_kv
    from verif.api import guarded
    rng = rng_for('C10ic', case['seed'], case['i'])
    sdim = int(rng.choice([1, 2]))              # space dimensions; time is axis 0 of the knot vectors (geo = (G~(x), t))
    T0, T1 = [(0.0, 1.0), (0.0, 1.0), (0.0, 2.0), (0.5, 1.5)][int(rng.integers(0, 4))]
    kct = knot_case(rng, pmin=1, pmax=3, max_spans=3, a=T0, b=T1)
    kcs = [knot_case(rng, pmin=1, pmax=3, max_spans=3) for _ in range(sdim)]
    kvs = (make_kv(kct),) + tuple(make_kv(k) for k in kcs)
    base = geometry.unit_square() if sdim == 2 else geometry.line_segment(0.0, 1.0)
    if rng.random() < 0.5 and sdim == 2: base = geometry.quarter_annulus()
    geo = geometry.tensor_product(geometry.line_segment(T0, T1, support=(T0, T1)), base)
    side = int(rng.integers(0, 2)); physical = bool(rng.integers(0, 2))
    c = rng.standard_normal((2, sdim + 1))
    g0 = lambda *X: c[0, 0] + sum(c[0, 1 + d] * X[d] for d in range(sdim))
    g1 = lambda *X: c[1, 0] + sum(c[1, 1 + d] * X[d] for d in range(sdim))
    desc = dict(case, sdim=sdim, T=[T0, T1], kvs=[kct] + kcs, side=side, physical=physical)
    _state['case'] = desc
    rec.case(desc, nontrivial=True)
    sig = {'route': 'compute_initial_condition_01', 'side': side, 'unit_time_interval': (T0, T1) == (0.0, 1.0), 'physical': physical}
    ok, r = guarded(rec, desc, sig, assemble.compute_initial_condition_01, kvs, geo, (0, side), g0, g1, physical)
    if not ok: return
    idx, vals = np.asarray(r[0]), np.asarray(r[1], dtype=float)
    N = tuple(kv.numdofs for kv in kvs)
    if len(set(idx.tolist())) != len(idx):
        rec.violation(dict(sig, oracle='dofs unique'), desc, {}); return
    coef = np.zeros(int(np.prod(N))); coef[idx] = vals
    coef = coef.reshape(N)
    grids = [np.array([T0 if side == 0 else T1])] + [np.array([float(x) for x in bsp.greville(kv.kv.tolist(), kv.p)]) for kv in kvs[1:]]
    kk = tp.kvs_of(kvs)
    v0 = tp.grid_eval(kk, coef, grids)[0]
    v1 = tp.grid_eval(kk, coef, grids, [1] + [0] * sdim)[0]
    if physical:
        P = np.asarray(base.grid_eval(grids[1:]), dtype=float)
        if sdim == 1: P = P.reshape(P.shape[0], -1)
        X = tuple(P[..., d] for d in range(P.shape[-1]))
    else:
        mesh = np.meshgrid(*grids[1:], indexing='ij')
        X = tuple(reversed(mesh))
    w0 = np.broadcast_to(g0(*X), v0.shape); w1 = np.broadcast_to(g1(*X), v1.shape)
    h = (T1 - T0)
    rec.check_close('initial_condition', float(max(np.abs(v0 - w0).max(), np.abs(v1 - w1).max() * h)), 1e-9 * (np.abs(w0).max() + np.abs(w1).max() + 1), sig, desc,
                    {'value_err': float(np.abs(v0 - w0).max()), 'deriv_err': float(np.abs(v1 - w1).max())})

def _mpbc(rec, case):
    from pyiga import assemble, geometry, bspline
    from refmodels import tp
    from verif.gen import rng_for, knot_case, make_kv
    from verif.api import guarded
    rng = rng_for('C10mp', case['seed'], case['i'])
    kc = knot_case(rng, pmin=1, pmax=3, max_spans=3); kcy = knot_case(rng, pmin=1, pmax=3, max_spans=3)
    kvs = (make_kv(kcy), make_kv(kc))
    P = [(kvs, geometry.unit_square()), (kvs, geometry.unit_square().translate((1.0, 0.0)))]
    MP = assemble.Multipatch(P)
    MP.join_boundaries(0, 'right', 1, 'left'); MP.finalize()
    c = rng.standard_normal(3)
    g = lambda x, y: c[0] + c[1] * x + c[2] * y
    conds = [(0, 'bottom', g), (1, 'bottom', g), (0, 'left', g), (1, 'top', g)]
    desc = dict(case, kvs=[kcy, kc])
    _state['case'] = desc
    rec.case(desc, nontrivial=True)
    sig = {'route': 'Multipatch.compute_dirichlet_bcs'}
    ok, r = guarded(rec, desc, sig, MP.compute_dirichlet_bcs, conds)
    if not ok: return
    I, V = np.asarray(r[0]), np.asarray(r[1], dtype=float)
    rec.count('oracle:bc_dofs')
    if len(set(I.tolist())) != len(I) or I.min() < 0 or I.max() >= MP.numdofs:
        rec.violation(dict(sig, oracle='glued dofs unique and in range'), desc, {}); return
    glob = np.full(MP.numdofs, np.nan); glob[I] = V
    # every constrained face of every patch: local coefficients taken from the global vector interpolate g
    worst = 0.0
    for (p, bd, _) in conds:
        loc = glob[MP.patch_to_global_idx(p)]
        ax, side = bspline._parse_bdspec(bd, 2)
        N = tuple(kv.numdofs for kv in kvs)
        coef = loc.reshape(N)
        grids = _face_points(kvs, ax, side)
        facecoef = np.take(coef, [0 if side == 0 else N[ax] - 1], axis=ax)
        if np.any(np.isnan(facecoef)):
            rec.violation(dict(sig, oracle='every dof of a constrained face is addressed'), desc, {'patch': p, 'bd': bd}); return
        coef0 = np.where(np.isnan(coef), 0.0, coef)
        val = tp.grid_eval(tp.kvs_of(kvs), coef0, grids)
        phys = np.asarray(P[p][1].grid_eval(grids), dtype=float)
        worst = max(worst, float(np.abs(val - g(phys[..., 0], phys[..., 1])).max()))
    rec.check_close('bc_trace', worst, 1e-10 * (np.abs(c).sum() * 3 + 1), sig, desc)
