"""C03 — hierarchical assembly is the level-wise Galerkin restriction of tensor-product assembly.

Oracle: built from independent pieces - representation matrices of level-k B-splines in the
level-m tensor basis from exact knot insertion (refmodels.bsp), the active sets of the space,
and level-m tensor-product matrices/vectors from the (non-hierarchical) assembler.  Reference entry
for functions (k,i),(l,j):  (R_{k->m} e_i)^T A_m (R_{l->m} e_j),  m = max(k,l); vectors use the
quadrature of the function's own level.  THB results must be the congruence transform by a T
obtained from the two reference representations by least squares.
"""
import os
import numpy as np

PROPERTY = 'C03'
LEVEL = 'exploration'
RULE = ('hierarchical spaces from random refinement histories (nested/corner/isolated/multi-level marks, <= 4 levels, dim 1-2 (3 in thorough), p 1-3, '
        'disparity 1/2/inf, HB and THB, bdspecs None/[]/faces) x forms {mass, Laplace, nonsymmetric convection with a vector input field, reaction with a '
        'physical coefficient (also one vanishing on part of the domain), L2 functionals physical/parametric} x geometries {identity, affine, bilinear/'
        'annulus}; distinct by (space, form, geometry); non-trivial if the space has >= 2 levels')
MIN_NONTRIVIAL = {'quick': 40, 'thorough': 800}
REQUIRED_COUNTERS = ['oracle:matrix_entries', 'oracle:vector_entries', 'oracle:thb_congruence', 'oracle:symmetric_flag', 'oracle:fine_galerkin', 'oracle:default_rhs']
WORKERS = {'quick': 16, 'thorough': 16}
TIMEOUT = {'quick': 3000, 'thorough': 14000}
ASSUMPTIONS = ['level-l tensor-product matrices/vectors are taken from assemble.assemble on the tensor spaces (property C01)',
               'reference refinement matrices by Boehm knot insertion; active sets read from the space (property C04)',
               'only default marking (refine(marked)) is used to reach the spaces']

FORMS_Q = ['mass', 'stiffness', 'convection', 'functional_phys', 'mass', 'reaction_zero', 'functional_para', 'stiffness']
FORMS_T = FORMS_Q + ['reaction', 'convection', 'reaction_zero']

def cases(tier, seed):
    n = {'quick': 64, 'thorough': 4200}[tier]
    forms = FORMS_Q if tier == 'quick' else FORMS_T
    for i in range(n):
        yield {'kind': 'asm', 'seed': seed, 'idx': i, 'form': forms[i % len(forms)], 'tier': tier}

def _make_form(name, dim):
    from pyiga import vform
    from pyiga.vform import VForm, dx, grad, inner
    if name == 'mass': return vform.mass_vf(dim), {}, True, 2
    if name == 'stiffness': return vform.stiffness_vf(dim), {}, True, 2
    if name == 'convection':
        V = VForm(dim); u, v = V.basisfuns()
        b = V.input('b', shape=(dim,), physical=True)
        V.add((inner(grad(u), grad(v)) + inner(b, grad(u)) * v) * dx)
        return V, {'b': 'vector'}, False, 2
    if name in ('reaction', 'reaction_zero'):
        V = VForm(dim); u, v = V.basisfuns()
        cc = V.input('c', shape=(), physical=True)
        V.add(cc * u * v * dx)
        return V, {'c': 'scalar_zero' if name == 'reaction_zero' else 'scalar'}, True, 2
    if name == 'functional_phys': return vform.L2functional_vf(dim, physical=True), {'f': 'scalar'}, None, 1
    if name == 'functional_para': return vform.L2functional_vf(dim, physical=False), {'f': 'para'}, None, 1
    raise ValueError(name)

def _fields(rng, dim, spec):
    out = {}
    for k, kind in spec.items():
        a = rng.standard_normal(dim + 1)
        if kind == 'vector':
            A = rng.standard_normal((dim, dim + 1))
            out[k] = (lambda A: (lambda *x: tuple(A[i, 0] + sum(A[i, 1 + d] * x[d] for d in range(dim)) for i in range(dim))))(A)
        elif kind == 'scalar':
            out[k] = (lambda a: (lambda *x: 1.5 + np.sin(a[0] + sum(a[1 + d] * x[d] for d in range(dim)))))(a)
        elif kind == 'scalar_zero':
            out[k] = (lambda a: (lambda *x: np.where(x[0] < 0.4, 0.0, 1.0 + 0 * x[0]) * (1.0 + 0.5 * x[-1])))(a)
        elif kind == 'para':
            out[k] = (lambda a: (lambda *x: a[0] + sum(a[1 + d] * x[d] ** 2 for d in range(dim))))(a)
    return out

def _geo(rng, dim, kind):
    from pyiga import geometry, bspline
    if dim == 1:
        return geometry.line_segment(0.0, 1.0) if kind == 'identity' else geometry.line_segment(float(rng.uniform(-1, 0)), float(rng.uniform(0.5, 2)))
    if kind == 'identity': return geometry.unit_square() if dim == 2 else geometry.unit_cube()
    if kind == 'affine':
        A = rng.standard_normal((dim, dim)) * 0.3 + np.eye(dim)
        return (geometry.unit_square() if dim == 2 else geometry.unit_cube()).apply_matrix(A).translate(rng.standard_normal(dim))
    if kind == 'annulus': return geometry.quarter_annulus()
    kv = bspline.make_knots(1, 0.0, 1.0, 1)
    P = np.array([[[0, 0], [1.0, 0.1]], [[0.2, 1.0], [1.3, 1.4]]]) + 0.1 * rng.standard_normal((2, 2, 2))
    return bspline.BSplineFunc((kv, kv), P)

def run_case(rec, case):
    import scipy.sparse
    from pyiga import assemble
    from verif import hgen
    from verif.gen import rng_for
    from verif.api import guarded
    import checks.c05 as c05
    rng = rng_for('C03', case['seed'], case['idx'])
    dims = (1, 2, 2) if (case.get('tier') == 'quick' or case['idx'] % 7) else (3,)
    desc = hgen.random_desc(rng, dims=dims, pmax=3 if 3 not in dims else 2, n0max=3 if 3 not in dims else 2, max_steps=3, max_levels=4 if 3 not in dims else 3,
                            bd_choices=('none', 'empty', 'one', 'all'))
    # the marking strategy for truncated bases (refine(..., truncate=True)) keeps only the THB functions within the disparity
    if desc['disparity'] is not None and rng.random() < 0.2: desc['mark_truncate'] = True
    hs, hist = hgen.build(desc)
    desc = dict(desc, history=hist)
    dim = hs.dim; L = hs.numlevels
    nL = int(np.prod([k.numdofs for k in hs.knotvectors(L - 1)]))
    if nL > 900:
        rec.count('skipped_too_large'); return
    gk = str(rng.choice(['identity', 'affine', 'bilinear', 'annulus'] if dim == 2 else ['identity', 'affine']))
    geo = _geo(rng, dim, gk)
    vf_name = case['form']
    c = dict(case, space=desc, geo=gk)
    rec.case(c, nontrivial=L >= 2, key=[desc, vf_name, gk])
    sig = {'route': 'assemble(hspace)', 'form': vf_name, 'truncate': bool(hs.truncate), 'disparity_finite': bool(np.isfinite(hs.disparity)),
           'bdspecs': 'none' if desc['bdspecs'] is None else ('empty' if not desc['bdspecs'] else 'faces'), 'dim': dim,
           'marking': 'truncate' if desc.get('mark_truncate') else 'default'}
    vf, spec, symmetric, arity = _make_form(vf_name, dim)
    fields = _fields(rng, dim, spec)
    args = dict(fields, geo=geo)
    # ---- reference pieces
    Rk = [c05._tp_refine_matrix(hs.knotvectors(k), hs.knotvectors(k + 1)) for k in range(L - 1)]
    def lift(k, m):   # dense matrix taking level-k TP coefficients to level-m TP coefficients
        M = np.eye(int(np.prod([kv.numdofs for kv in hs.knotvectors(k)])))
        for j in range(k, m): M = Rk[j] @ M
        return M
    act = []
    for k in range(L):
        nd = tuple(kv.numdofs for kv in hs.knotvectors(k))
        act.append(np.array([np.ravel_multi_index(f, nd) for f in sorted(hs.actfun[k])], dtype=int))
    offs = np.concatenate(([0], np.cumsum([len(a) for a in act])))
    n = hs.numdofs
    RH = c05._fine_rep(hs, False); RT = c05._fine_rep(hs, True)
    Tref = np.linalg.lstsq(RH, RT, rcond=None)[0] if n else np.zeros((0, 0))
    lvl = []
    for m in range(L):
        vfm, _, _, _ = _make_form(vf_name, dim)
        ok, Am = guarded(rec, c, dict(sig, stage='tensor-product level assembly'), assemble.assemble, vfm, hs.knotvectors(m), **args)
        if not ok: return
        lvl.append(np.asarray(Am.toarray() if hasattr(Am, 'toarray') else Am, dtype=float))
    if arity == 2:
        Aref = np.zeros((n, n))
        for k in range(L):
            for l in range(L):
                m = max(k, l)
                if not len(act[k]) or not len(act[l]): continue
                Bk = lift(k, m)[:, act[k]]; Bl = lift(l, m)[:, act[l]]
                # A[row=test (v), col=trial (u)]
                Aref[offs[k]:offs[k + 1], offs[l]:offs[l + 1]] = Bk.T @ lvl[m] @ Bl
        ref = Tref.T @ Aref @ Tref if hs.truncate else Aref
        vf2, _, _, _ = _make_form(vf_name, dim)
        ok, A = guarded(rec, c, sig, assemble.assemble, vf2, hs, **args)
        if not ok: return
        Ad = A.toarray()
        if Ad.shape != ref.shape:
            rec.violation(dict(sig, oracle='shape'), c, {'got': list(Ad.shape), 'want': list(ref.shape)}); return
        scale = np.abs(Aref).max() + 1e-300
        err = np.abs(Ad - ref); w = np.unravel_index(np.argmax(err), err.shape)
        rec.check_close('matrix_entries', float(err[w]), 1e-11 * scale * (10 if hs.truncate else 1), sig, c,
                        {'entry': [int(w[0]), int(w[1])], 'got': float(Ad[w]), 'ref': float(ref[w])})
        if hs.truncate:
            # THB result is the congruence transform of the HB result by the space's own THB-to-HB matrix as well
            T = hs.thb_to_hb().toarray()
            rec.check_close('thb_congruence', float(np.abs(Ad - T.T @ Aref @ T).max()), 1e-10 * scale, sig, c)
        if symmetric:
            vf3, _, _, _ = _make_form(vf_name, dim)
            ok, As = guarded(rec, c, dict(sig, symmetric=True), assemble.assemble, vf3, hs, symmetric=True, **args)
            if ok: rec.check_close('symmetric_flag', float(np.abs(As.toarray() - Ad).max()), 1e-11 * scale * 10, dict(sig, symmetric=True), c)
        # piecewise polynomial integrands of degree <= 2p+1 per direction: equals I^T A_fine I
        if vf_name in ('mass', 'stiffness') and gk in ('identity',) or (vf_name == 'mass' and gk == 'affine'):
            I = RT if hs.truncate else RH
            rec.check_close('fine_galerkin', float(np.abs(Ad - I.T @ lvl[L - 1] @ I).max()), 1e-10 * scale, sig, c)
    else:
        bref = np.zeros(n)
        for k in range(L):
            if len(act[k]): bref[offs[k]:offs[k + 1]] = lvl[k].ravel()[act[k]]
        ref = Tref.T @ bref if hs.truncate else bref
        vf2, _, _, _ = _make_form(vf_name, dim)
        ok, b = guarded(rec, c, sig, assemble.assemble, vf2, hs, **args)
        if not ok: return
        b = np.asarray(b, dtype=float)
        if b.shape != ref.shape:
            rec.violation(dict(sig, oracle='shape'), c, {'got': list(b.shape)}); return
        rec.check_close('vector_entries', float(np.abs(b - ref).max()), 1e-11 * (np.abs(bref).max() + 1e-300) * (10 if hs.truncate else 1), sig, c)
    # ---- the default right-hand side of a hierarchical discretization: <f, v> with f given in physical coordinates
    if case['idx'] % 2 == 0:
        from pyiga import vform as V
        from pyiga._hdiscr import HDiscretization
        cf = rng.uniform(0.5, 1.5, dim + 1)
        f = (lambda *X: cf[0] + sum(cf[i + 1] * np.sin(1.3 * X[i] + 0.2 * i) for i in range(dim)))
        sigr = dict(sig, route='HDiscretization.assemble_rhs()', form='default L2 functional')
        lv_rhs = []
        for m in range(L):
            ok, bm = guarded(rec, c, dict(sigr, stage='tensor-product level assembly'), assemble.assemble, V.L2functional_vf(dim, physical=True), hs.knotvectors(m), f=f, geo=geo)
            if not ok: return
            lv_rhs.append(np.asarray(bm, dtype=float).ravel())
        bref = np.zeros(n)
        for k in range(L):
            if len(act[k]): bref[offs[k]:offs[k + 1]] = lv_rhs[k][act[k]]
        ref = Tref.T @ bref if hs.truncate else bref
        ok, b = guarded(rec, c, sigr, lambda: HDiscretization(hs, None, {'f': f, 'geo': geo}).assemble_rhs())
        if ok:
            rec.count('oracle:default_rhs')
            b = np.asarray(b, dtype=float)
            if b.shape != ref.shape: rec.violation(dict(sigr, oracle='shape'), c, {'got': list(b.shape)})
            else: rec.check_close('default_rhs', float(np.abs(b - ref).max()), 1e-11 * (np.abs(bref).max() + 1e-300) * (10 if hs.truncate else 1), sigr, c)
