"""C15 — multi-level structured matrices behave as the sparse matrices they denote.

Oracle: dense numpy Kronecker products of the per-level 0/1 patterns and data matrices; the
order of nonzero() is derived independently from the definition of the compact layout
(C-order over the per-level nonzero lists); supports of B-splines from the raw knots.
"""
import os, itertools
import numpy as np

PROPERTY = 'C15'
LEVEL = 'exploration'
RULE = ('per-level sparsity patterns: exhaustive over all non-empty 0/1 patterns of 2x2 blocks for 1-3 levels and of 2x3/3x2/3x3 blocks for '
        '1-2 levels (thorough; sampled in quick), random for 1-6 levels with block shapes 1..5 x 1..5 and densities 0.2..1; x lower_tri '
        'x row/column subsets (empty, unsorted, all) x data tensors x level permutations; knot-vector pairs (different degrees, repeated '
        'knots, same and nested meshes); a case is one structure; distinct by its patterns; non-trivial if it has >= 2 nonzeros')
MIN_NONTRIVIAL = {'quick': 1500, 'thorough': 30000}
REQUIRED_COUNTERS = ['oracle:nonzero_order', 'oracle:lower_tri', 'oracle:rows', 'oracle:columns', 'oracle:matvec', 'oracle:matvec_result_not_aliased', 'oracle:asmatrix',
                     'oracle:reorder', 'oracle:transpose', 'oracle:kron_partial', 'oracle:sparsity_kvs', 'oracle:index_maps']
VARIANTS = {'quick': ['plain'], 'thorough': ['plain', 'asan']}
WORKERS_SAN = 8
ASSUMPTIONS = ['dense numpy.kron is the trusted reference', 'asan variant (thorough) runs the random family on mlmatrix_cy built with '
               '-fsanitize=address,undefined (the module indexes raw pointers with bounds checks off)']

def _patterns(m, n):
    for bits in range(1, 2 ** (m * n)):
        yield np.array([(bits >> k) & 1 for k in range(m * n)], dtype=float).reshape(m, n)

def cases(tier, seed):
    variant = os.environ.get('VERIF_VARIANT', 'plain')
    nrand = {'quick': 2200, 'thorough': 40000}[tier]
    if variant != 'plain':
        nrand = 3000
    for i in range(nrand):
        yield {'kind': 'random', 'seed': seed, 'idx': i}
    nkv = {'quick': 300, 'thorough': 6000}[tier] if variant == 'plain' else 200
    for i in range(nkv):
        yield {'kind': 'kvs', 'seed': seed, 'idx': i}
    nidx = {'quick': 200, 'thorough': 4000}[tier] if variant == 'plain' else 100
    for i in range(nidx):
        yield {'kind': 'indexmaps', 'seed': seed, 'idx': i}
    if variant != 'plain':
        return
    # exhaustive small families (blocks of pattern indices)
    fam = [((2, 2), 1), ((2, 2), 2), ((2, 3), 1), ((3, 2), 1), ((3, 3), 1)]
    if tier == 'thorough':
        fam += [((2, 2), 3), ((2, 3), 2)]
    for shp, L in fam:
        npat = 2 ** (shp[0] * shp[1]) - 1
        total = npat ** L
        step = 1 if (tier == 'thorough' or total <= 300) else max(1, total // 300)
        blk = 200
        idxs = list(range(0, total, step))
        for b in range(0, len(idxs), blk):
            yield {'kind': 'exhaustive', 'shape': list(shp), 'L': L, 'ids': idxs[b:b + blk]}

def _check_structure(rec, case, mats, rng, sig):
    """mats: list of dense per-level matrices (zero pattern defines the structure; values are the data)."""
    import scipy.sparse
    from pyiga import mlmatrix, utils
    from verif.api import guarded
    L = len(mats)
    pats = [(A != 0) for A in mats]
    K = mats[0]
    for A in mats[1:]: K = np.kron(K, A)
    nnz_levels = [int(P.sum()) for P in pats]
    rec.case({'patterns': [P.astype(int).tolist() for P in pats]}, nontrivial=int(np.prod(nnz_levels)) >= 2,
             key=[P.astype(int).tolist() for P in pats])
    sig = dict(sig, L=L, square=all(A.shape[0] == A.shape[1] for A in mats))
    def bad(what, **w):
        rec.violation(dict(sig, oracle=what), case, w)
    # the per-level matrices arrive in any scipy format: CSR lists its nonzeros row by row, CSC column by column, COO in any order;
    # the compact layout follows the listing, whatever it is (the references below are derived from S.bidx)
    def _fmt(A):
        z = rng.random()
        if z < 0.6: return scipy.sparse.csr_matrix(A)
        if z < 0.8: return scipy.sparse.csc_matrix(A)
        C = scipy.sparse.coo_matrix(A); perm = rng.permutation(C.nnz)
        return scipy.sparse.coo_matrix((C.data[perm], (C.row[perm], C.col[perm])), shape=C.shape)
    lev = [_fmt(A) for A in mats]
    sig = dict(sig, level_listing='row-major' if all(m_.format == 'csr' for m_ in lev) else 'other')
    ok, S = guarded(rec, case, dict(sig, route='from_kronecker'), mlmatrix.MLStructure.from_kronecker, lev)
    if not ok: return
    if S.shape != K.shape or S.L != L or tuple(S.bs) != tuple(tuple(A.shape) for A in mats):
        bad('structure shape/levels', shape=list(S.shape)); return
    # reference order of the compact layout: C-order over the per-level nonzero lists as stored in bidx
    bidx = [np.asarray(b) for b in S.bidx]
    for k in range(L):
        ref_set = set(zip(*np.nonzero(pats[k])))
        got = [tuple(int(v) for v in r) for r in bidx[k]]
        if set(got) != ref_set or len(got) != len(ref_set):
            bad('per-level nonzero list', level=k); return
    rows_dims = [A.shape[0] for A in mats]; cols_dims = [A.shape[1] for A in mats]
    grids = np.meshgrid(*[np.arange(len(b)) for b in bidx], indexing='ij')
    mi = [g.ravel() for g in grids]
    I_ref = np.ravel_multi_index([bidx[k][mi[k], 0] for k in range(L)], rows_dims)
    J_ref = np.ravel_multi_index([bidx[k][mi[k], 1] for k in range(L)], cols_dims)
    ok, IJ = guarded(rec, case, dict(sig, route='nonzero'), S.nonzero)
    if ok:
        I, J = np.asarray(IJ[0]).astype(np.int64), np.asarray(IJ[1]).astype(np.int64)
        rec.count('oracle:nonzero_order')
        if not (np.array_equal(I, I_ref) and np.array_equal(J, J_ref)):
            sameset = set(zip(I.tolist(), J.tolist())) == set(zip(I_ref.tolist(), J_ref.tolist()))
            bad('nonzero() positions in compact-layout order', same_as_set=sameset, first_got=[I[:4].tolist(), J[:4].tolist()], first_ref=[I_ref[:4].tolist(), J_ref[:4].tolist()])
        if set(zip(I_ref.tolist(), J_ref.tolist())) != set(zip(*[a.tolist() for a in np.nonzero(K)])):
            raise AssertionError('reference inconsistent')
    if L >= 1:
        ok, IJ = guarded(rec, case, dict(sig, route='nonzero_lower'), S.nonzero, lower_tri=True)
        if ok:
            rec.count('oracle:lower_tri')
            m = J_ref <= I_ref
            if not (np.array_equal(np.asarray(IJ[0]).astype(np.int64), I_ref[m]) and np.array_equal(np.asarray(IJ[1]).astype(np.int64), J_ref[m])):
                bad('lower-triangular subset')
    # rows / columns subsets
    M, N = K.shape
    for which, n in (('rows', M), ('columns', N)):
        kind = int(rng.integers(0, 4))
        sub = {0: np.zeros(0, dtype=int), 1: rng.permutation(n), 2: rng.permutation(n)[:max(1, n // 2)], 3: np.array([int(rng.integers(0, n))])}[kind]
        if which == 'rows':
            ok, r = guarded(rec, case, dict(sig, route='nonzeros_for_rows'), S.nonzeros_for_rows, sub)
            ref = set((i, j) for i, j in zip(I_ref.tolist(), J_ref.tolist()) if i in set(sub.tolist()))
        else:
            ok, r = guarded(rec, case, dict(sig, route='nonzeros_for_columns'), S.nonzeros_for_columns, sub)
            ref = set((i, j) for i, j in zip(I_ref.tolist(), J_ref.tolist()) if j in set(sub.tolist()))
        if ok:
            rec.count('oracle:' + which)
            got = list(zip(np.asarray(r[0]).tolist(), np.asarray(r[1]).tolist()))
            if set(got) != ref or len(got) != len(ref):
                bad('nonzeros_for_' + which, subset=sub.tolist(), n_got=len(got), n_ref=len(ref))
    sub = rng.permutation(M)[:max(1, M // 2)]
    ok, r = guarded(rec, case, dict(sig, route='nonzeros_for_rows_renumber'), S.nonzeros_for_rows, sub, renumber_rows=True)
    if ok:
        Ir, Jr, pos = [np.asarray(a) for a in r]
        if not np.array_equal(sub[pos], Ir):
            bad('renumbered rows index into the given row list')
    # data layout, asmatrix, matvec
    ok, X = guarded(rec, case, dict(sig, route='make_mlmatrix'), S.make_mlmatrix, matrix=K)
    if ok:
        data_ref = K[I_ref, J_ref].reshape([len(b) for b in bidx])
        rec.count('oracle:asmatrix')
        if X.data.shape != data_ref.shape or not np.array_equal(X.data, data_ref):
            bad('compact data tensor = entries in layout order')
        ok2, A = guarded(rec, case, dict(sig, route='asmatrix'), X.asmatrix)
        if ok2 and (A.shape != K.shape or not np.array_equal(A.toarray(), K)):
            bad('asmatrix equals dense Kronecker product')
        ok2, X2 = guarded(rec, case, dict(sig, route='make_mlmatrix_data'), S.make_mlmatrix, data=data_ref.copy())
        if ok2:
            ok3, A2 = guarded(rec, case, dict(sig, route='asmatrix_data'), X2.asmatrix, 'csc')
            if ok3 and not np.array_equal(A2.toarray(), K): bad('asmatrix from data tensor')
        x = rng.standard_normal(N)
        ok2, y = guarded(rec, case, dict(sig, route='matvec'), X.dot, x)
        if ok2 and y is not None:
            # a result stays what it was when the same matrix is applied again
            ysnap = np.array(y, copy=True)
            ok3, y_other = guarded(rec, case, dict(sig, route='matvec'), X.dot, -2.0 * np.asarray(x) + 1.0)
            rec.count('oracle:matvec_result_not_aliased')
            if ok3 and not np.array_equal(np.asarray(y), ysnap):
                rec.violation(dict(sig, route='matvec', oracle='a returned product is not changed by later products'), case, {})
        if ok2:
            y = np.asarray(y)
            if y.shape != (M,):
                bad('matvec result length', got=list(y.shape), want=M)
            else:
                rec.check_close('matvec', float(np.abs(y - K @ x).max()), float(1e-13 * (np.abs(K) @ np.abs(x)).max() + 1e-300), dict(sig, route='matvec'), case)
        # reorder levels
        if L >= 2:
            axes = tuple(int(a) for a in rng.permutation(L))
            ok2, Xr = guarded(rec, case, dict(sig, route='reorder'), X.reorder, axes)
            if ok2:
                rec.count('oracle:reorder')
                Kt = K.reshape(rows_dims + cols_dims)
                perm = list(axes) + [L + a for a in axes]
                Kr = np.transpose(Kt, perm).reshape(M, N)
                ok3, Ar = guarded(rec, case, dict(sig, route='reorder.asmatrix'), Xr.asmatrix)
                if ok3 and not np.array_equal(Ar.toarray(), Kr):
                    bad('reorder(axes) = Kronecker product of permuted levels', axes=list(axes))
    ok, St = guarded(rec, case, dict(sig, route='transpose'), S.transpose)
    if ok:
        rec.count('oracle:transpose')
        It, Jt = St.nonzero()
        if St.shape != (N, M) or set(zip(np.asarray(It).tolist(), np.asarray(Jt).tolist())) != set(zip(J_ref.tolist(), I_ref.tolist())):
            bad('transpose structure')
        else:
            # the transposed structure is a structure like any other: data layout, conversion and product
            ok2, Xt = guarded(rec, case, dict(sig, route='transpose.make_mlmatrix'), St.make_mlmatrix, matrix=K.T.copy())
            if ok2:
                rec.count('oracle:transposed_structure_matrix')
                It, Jt = np.asarray(It), np.asarray(Jt)
                if not np.array_equal(np.asarray(Xt.data).ravel(), K.T[It, Jt]):
                    bad('transposed structure: compact data tensor = entries in the order of nonzero()')
                ok3, At = guarded(rec, case, dict(sig, route='transpose.asmatrix'), Xt.asmatrix)
                if ok3 and not np.array_equal(At.toarray(), K.T):
                    bad('transposed structure: asmatrix equals the transposed Kronecker product')
                xt = rng.standard_normal(M)
                ok3, yt = guarded(rec, case, dict(sig, route='transpose.matvec'), Xt.dot, xt)
                if ok3:
                    rec.check_close('matvec', float(np.abs(np.asarray(yt) - K.T @ xt).max()), float(1e-13 * (np.abs(K.T) @ np.abs(xt)).max() + 1e-300),
                                    dict(sig, route='transpose.matvec'), case)
    # partial Kronecker products
    sp = [scipy.sparse.csr_matrix(A) for A in mats]
    rows = rng.permutation(M)[:int(rng.integers(0, M + 1))]
    rows = np.sort(rows) if rng.random() < 0.5 else rows
    for restrict in (False, True):
        ok, P = guarded(rec, case, dict(sig, route='kron_partial', restrict=restrict), utils.kron_partial, sp, rows, restrict=restrict)
        if ok:
            rec.count('oracle:kron_partial')
            if restrict:
                ref = K[rows]
            else:
                ref = np.zeros_like(K); ref[rows] = K[rows]
            if P.shape != ref.shape or np.abs(P.toarray() - ref).max(initial=0.0) > 1e-13 * (np.abs(K).max() + 1):
                bad('kron_partial = selected rows of the full product', restrict=restrict, rows=rows.tolist())

def run_case(rec, case):
    from verif.gen import rng_for
    kind = case['kind']
    if kind == 'random':
        rng = rng_for('C15', case['seed'], case['idx'])
        L = int(rng.integers(1, 7))
        maxdim = 5 if L <= 3 else (3 if L <= 4 else 2)
        mats = []
        for k in range(L):
            m, n = int(rng.integers(1, maxdim + 1)), int(rng.integers(1, maxdim + 1))
            dens = float(rng.uniform(0.2, 1.0))
            P = rng.random((m, n)) < dens
            if not P.any(): P[int(rng.integers(0, m)), int(rng.integers(0, n))] = True
            mats.append(P * rng.uniform(0.5, 2.0, size=(m, n)) * rng.choice([-1.0, 1.0], size=(m, n)))
        _check_structure(rec, case, mats, rng, {'kind': 'random'})
    elif kind == 'exhaustive':
        m, n = case['shape']; L = case['L']
        pats = list(_patterns(m, n)); npat = len(pats)
        for pid in case['ids']:
            rng = rng_for('C15ex', m, n, L, pid)
            digits = [(pid // npat ** k) % npat for k in range(L)]
            mats = [pats[d] * rng.uniform(0.5, 2.0, size=(m, n)) for d in digits]
            _check_structure(rec, {'kind': 'exhaustive', 'shape': [m, n], 'L': L, 'ids': [pid]}, mats, rng, {'kind': 'exhaustive'})
    elif kind == 'kvs':
        _check_kvs(rec, case)
    elif kind == 'indexmaps':
        _check_index_maps(rec, case)

def _check_kvs(rec, case):
    from pyiga import mlmatrix, bspline
    from verif.gen import rng_for, knot_case, knots_from_case
    from verif.api import guarded
    rng = rng_for('C15kv', case['seed'], case['idx'])
    mode = ['same', 'same', 'nested'][case['idx'] % 3]
    k1 = knot_case(rng, pmin=0, pmax=4, max_spans=6, dyadic=True)
    k2 = dict(k1); k2['p'] = int(rng.integers(0, 5))
    k2['mults'] = [int(rng.integers(1, max(k2['p'], 1) + 1)) for _ in k1['mults']]
    if mode == 'nested':
        # second space lives on a refinement of the first mesh
        br = k1['breaks']; extra = [(a + b) / 2 for a, b in zip(br[:-1], br[1:]) if rng.random() < 0.6]
        k2['breaks'] = sorted(set(br + extra))
        k2['mults'] = [int(rng.integers(1, max(k2['p'], 1) + 1)) for _ in range(len(k2['breaks']) - 2)]
    kvA = bspline.KnotVector(knots_from_case(k1), k1['p']); kvB = bspline.KnotVector(knots_from_case(k2), k2['p'])
    cdesc = dict(case, kv1=k1, kv2=k2, mode=mode)
    rec.case({'kv1': k1, 'kv2': k2}, nontrivial=len(k1['breaks']) > 2)
    sig = {'kind': 'kvs', 'mesh': mode}
    for (a, b, tag) in ((kvA, kvB, 'AB'), (kvB, kvA, 'BA')):
        ok, IJ = guarded(rec, cdesc, dict(sig, route='compute_sparsity_ij'), mlmatrix.compute_sparsity_ij, a, b)
        if not ok: continue
        rec.count('oracle:sparsity_kvs')
        got = [tuple(int(v) for v in r) for r in np.asarray(IJ).reshape(-1, 2)]
        ref = set()
        for i in range(b.numdofs):
            for j in range(a.numdofs):
                lo = max(b.kv[i], a.kv[j]); hi = min(b.kv[i + b.p + 1], a.kv[j + a.p + 1])
                if hi > lo: ref.add((i, j))
        if set(got) != ref or len(got) != len(ref):
            rec.violation(dict(sig, oracle='pattern = pairs with overlapping support', order=tag), cdesc,
                          {'missing': sorted(ref - set(got))[:5], 'spurious': sorted(set(got) - ref)[:5]})
    # banded / dense helper patterns
    n = int(rng.integers(1, 7)); bw = int(rng.integers(0, 4))
    refb = [(i, j) for i in range(n) for j in range(n) if abs(i - j) <= bw]
    gb = [tuple(int(v) for v in r) for r in mlmatrix.compute_banded_sparsity_ij(n, bw)]
    if gb != refb or mlmatrix.compute_banded_sparsity(n, bw).tolist() != [i * n + j for i, j in refb]:
        rec.violation(dict(sig, oracle='banded sparsity'), cdesc, {'n': n, 'bw': bw})
    m = int(rng.integers(1, 5))
    if [tuple(int(v) for v in r) for r in mlmatrix.compute_dense_ij(m, n)] != [(i, j) for i in range(m) for j in range(n)]:
        rec.violation(dict(sig, oracle='dense pattern'), cdesc, {'m': m, 'n': n})

def _check_index_maps(rec, case):
    from pyiga import mlmatrix
    from verif.gen import rng_for
    from verif.api import guarded
    rng = rng_for('C15im', case['seed'], case['idx'])
    L = int(rng.integers(1, 5))
    bs = np.array([[int(rng.integers(1, 5)), int(rng.integers(1, 5))] for _ in range(L)], dtype=np.int64)
    M, N = int(np.prod(bs[:, 0])), int(np.prod(bs[:, 1]))
    rec.case(dict(case, bs=bs.tolist()), nontrivial=M * N > 1)
    sig = {'kind': 'indexmaps', 'L': L}
    seen = set()
    rec.count('oracle:index_maps')
    for i in range(M):
        for j in range(N):
            ok, Mi = guarded(rec, case, dict(sig, route='reindex_to_multilevel'), mlmatrix.reindex_to_multilevel, i, j, bs)
            if not ok: return
            Mi = tuple(int(v) for v in Mi)
            # definition: level-k component = ravel((I_k, J_k), bs[k])
            Ik = np.unravel_index(i, bs[:, 0]); Jk = np.unravel_index(j, bs[:, 1])
            ref = tuple(int(Ik[k] * bs[k, 1] + Jk[k]) for k in range(L))
            if Mi != ref:
                rec.violation(dict(sig, oracle='reindex_to_multilevel = levelwise raveled (I_k,J_k)'), case, {'i': i, 'j': j, 'got': list(Mi), 'ref': list(ref)}); return
            seen.add(Mi)
            ok, ij = guarded(rec, case, dict(sig, route='reindex_from_multilevel'), mlmatrix.reindex_from_multilevel, list(Mi), bs)
            if not ok: return
            if (int(ij[0]), int(ij[1])) != (i, j):
                rec.violation(dict(sig, oracle='from_multilevel(to_multilevel) = id'), case, {'i': i, 'j': j, 'got': [int(ij[0]), int(ij[1])]}); return
    if len(seen) != M * N:
        rec.violation(dict(sig, oracle='to_multilevel injective'), case, {})
    # two-level reordering (Van Loan-Pitsianis)
    m1, n1, m2, n2 = [int(v) for v in rng.integers(1, 4, size=4)]
    X = rng.standard_normal((m1 * m2, n1 * n2))
    ok, Y = guarded(rec, case, dict(sig, route='reorder'), mlmatrix.reorder, X, m1, n1)
    if ok:
        if Y.shape != (m1 * n1, m2 * n2):
            rec.violation(dict(sig, oracle='reorder shape'), case, {}); return
        for i in range(Y.shape[0]):
            for j in range(Y.shape[1]):
                a, b = mlmatrix.reindex_from_reordered(i, j, m1, n1, m2, n2)
                if not (0 <= a < X.shape[0] and 0 <= b < X.shape[1]) or X[a, b] != Y[i, j]:
                    rec.violation(dict(sig, oracle='reindex_from_reordered inverts reorder'), case, {'i': i, 'j': j, 'dims': [m1, n1, m2, n2]}); return
