"""C17 — interpolation and L2 projection are projections onto the spline space.

Oracles: reproduction of functions of the space (bound scaled by the computed condition number of the
collocation resp. mass matrix), node matching by independent evaluation, orthogonality of the
projection residual in a higher-order reference quadrature, component-wise and physical/pull-back
consistency; the stderr warning of the CG path is captured.
"""
import io, contextlib
import numpy as np

PROPERTY = 'C17'
LEVEL = 'exploration'
RULE = ('tensor spaces dim 1-3, degrees 0-6, non-uniform/repeated knots, default Greville nodes and custom unisolvent grids; data as spline object, '
        'callable (through the reference evaluator), value array; scalar/vector/matrix-valued; identity/affine/NURBS geometries; hierarchical spaces '
        'from random refinement histories (HB/THB); distinct by descriptor; non-trivial if the space has >= 2 dofs and the condition-scaled bound is '
        'below 1e-3 (otherwise counted as trivial)')
MIN_NONTRIVIAL = {'quick': 150, 'thorough': 3000}
REQUIRED_COUNTERS = ['oracle:interp_reproduction', 'oracle:interp_nodes', 'oracle:l2_reproduction', 'oracle:l2_orthogonality', 'oracle:l2_cg_residual',
                     'oracle:componentwise', 'oracle:physical_pullback', 'oracle:hspace_projection', 'oracle:hspace_projection_level0']
ASSUMPTIONS = ['reproduction bounds are 1e-11 x cond x |c|; cases where that exceeds 1e-3 are counted as trivial, not as held',
               'hierarchical projection uses pyiga hierarchical assembly (C03) of the mass matrix; the oracle only needs reproduction']

KINDS = ['interp', 'interp', 'interp', 'l2', 'l2', 'l2geo', 'l2geo', 'hspace']

def cases(tier, seed):
    n = {'quick': 320, 'thorough': 18000}[tier]
    for i in range(n):
        yield {'kind': KINDS[i % len(KINDS)], 'seed': seed, 'idx': i}

def _space(rng, dim, pmin=0, pmax=4, max_spans=4):
    from verif.gen import knot_case, make_kv
    kcs = [knot_case(rng, pmin=pmin, pmax=pmax, max_spans=max_spans, wild=False) for _ in range(dim)]
    return kcs, tuple(make_kv(k) for k in kcs)

def _grid_callable(kvs, C):
    """A callable in xyz order evaluating the tensor spline with coefficients C through the reference evaluator;
    accepts the sparse meshgrid arrays pyiga passes as well as broadcast-compatible arrays on a tensor grid."""
    from refmodels import tp
    k = tp.kvs_of(kvs); d = len(kvs)
    def f(*x):
        axes = [np.unique(np.asarray(a, dtype=float).ravel()) for a in reversed(x)]    # axis order
        shapes = [np.asarray(a).shape for a in reversed(x)]
        # only sparse tensor grids (each coordinate varies along its own axis) are supported
        grids = [np.asarray(a, dtype=float).ravel() for a in reversed(x)]
        for ax, g in enumerate(grids):
            if len(g) != max(shapes[ax]) if shapes[ax] else False: raise ValueError('not a sparse grid')
        return tp.grid_eval(k, C, grids)
    return f

def _cond_kron(mats):
    c = 1.0
    for M in mats: c *= np.linalg.cond(M)
    return c

def run_case(rec, case):
    {'interp': _interp, 'l2': _l2, 'l2geo': _l2geo, 'hspace': _hspace}[case['kind']](rec, case)

def _nodes(rng, kvs, custom):
    from refmodels import bsp
    nodes = []
    for kv in kvs:
        g = np.array([float(x) for x in bsp.greville(kv.kv.tolist(), kv.p)])
        if custom:
            mid = np.array([(kv.kv[j] + kv.kv[j + kv.p + 1]) / 2 for j in range(kv.numdofs)])
            th = rng.uniform(0.0, 0.5, len(g))
            g = (1 - th) * g + th * mid
            g = np.clip(g, kv.kv[0], kv.kv[-1])
        nodes.append(g)
    return nodes

def _interp(rec, case):
    from pyiga import approx, bspline, geometry
    from refmodels import tp, bsp
    from verif.gen import rng_for
    from verif.api import guarded
    rng = rng_for('C17i', case['seed'], case['idx'])
    dim = int(rng.choice([1, 2, 2, 3]))
    kcs, kvs = _space(rng, dim, pmin=0, pmax=6 if dim == 1 else (4 if dim == 2 else 2), max_spans=4 if dim < 3 else 2)
    N = tuple(kv.numdofs for kv in kvs)
    out = [(), (), (2,), (3,), (2, 2)][int(rng.integers(0, 5))]
    C = rng.standard_normal(N + out)
    custom = bool(rng.random() < 0.5)
    form = ['spline', 'callable', 'array'][int(rng.integers(0, 3))]
    nodes = _nodes(rng, kvs, custom)
    c = dict(case, dim=dim, kvs=kcs, out=list(out), custom_nodes=custom, form=form)
    colls = [bsp.collocation_dense(kv.kv.tolist(), kv.p, nd.tolist()) for kv, nd in zip(kvs, nodes)]
    cond = _cond_kron(colls)
    bound = 1e-11 * cond * (np.abs(C).max() + 1)
    rec.case(c, nontrivial=(int(np.prod(N)) >= 2 and bound < 1e-3))
    sig = {'route': 'approx.interpolate', 'dim': dim, 'form': form, 'custom_nodes': custom, 'out': len(out)}
    k = tp.kvs_of(kvs)
    vals = tp.grid_eval(k, C, nodes)
    if form == 'spline': f = bspline.BSplineFunc(kvs, C.copy())
    elif form == 'callable': f = _grid_callable(kvs, C)
    else: f = vals.copy()
    kw = {'nodes': [nd.copy() for nd in nodes]} if custom else {}
    arg = kvs if (dim > 1 or rng.random() < 0.5) else kvs[0]
    ok, ch = guarded(rec, c, sig, approx.interpolate, arg, f, **kw)
    if not ok: return
    ch = np.asarray(ch)
    if ch.shape != C.shape:
        rec.violation(dict(sig, oracle='coefficient array shape'), c, {'got': list(ch.shape), 'want': list(C.shape)}); return
    if bound < 1e-3:
        rec.check_close('interp_reproduction', float(np.abs(ch - C).max()), float(bound), sig, c)
        back = tp.grid_eval(k, ch, nodes)
        rec.check_close('interp_nodes', float(np.abs(back - vals).max()), float(1e-11 * cond * (np.abs(vals).max() + 1)), sig, c)
    # data outside the space given in physical coordinates on a non-trivial geometry: interpolant matches the data at the nodes
    if dim == 2 and len(out) == 0 and not custom:
        geo = geometry.quarter_annulus() if rng.random() < 0.5 else geometry.unit_square().scale((2.0, 0.5)).translate((1.0, -1.0))
        g = lambda x, y: np.sin(x) * y + x * x
        ok, ch = guarded(rec, c, dict(sig, geo=True), approx.interpolate, kvs, g, geo=geo)
        if ok and 1e-11 * cond < 1e-3:
            P = np.asarray(geo.grid_eval(nodes), dtype=float)
            want = g(P[..., 0], P[..., 1])
            back = tp.grid_eval(k, np.asarray(ch), nodes)
            rec.check_close('interp_nodes', float(np.abs(back - want).max()), float(1e-11 * cond * (np.abs(want).max() + 1)), dict(sig, geo=True), c)
    if dim == 1 and len(out) == 0:
        kv = kvs[0]
        fn = lambda x: np.array([float(bsp.eval_spline(kv.kv.tolist(), kv.p, C, float(t))) for t in np.atleast_1d(x)])
        ok, ch = guarded(rec, c, dict(sig, route='bspline.interpolate'), bspline.interpolate, kv, fn, nodes[0] if custom else None)
        if ok and bound < 1e-3:
            rec.check_close('interp_reproduction', float(np.abs(np.asarray(ch) - C).max()), float(bound), dict(sig, route='bspline.interpolate'), c)

def _gauss_ref(kvs, nq=8):
    gx, gw = [], []
    for kv in kvs:
        m = np.unique(kv.kv); x, w = np.polynomial.legendre.leggauss(nq)
        gx.append(np.concatenate([0.5 * (a + b) + 0.5 * (b - a) * x for a, b in zip(m[:-1], m[1:])]))
        gw.append(np.concatenate([0.5 * (b - a) * w for a, b in zip(m[:-1], m[1:])]))
    W = gw[0]
    for w_ in gw[1:]: W = np.multiply.outer(W, w_)
    return gx, W

def _l2(rec, case):
    from pyiga import approx, bspline, assemble
    from refmodels import tp, bsp
    from verif.gen import rng_for
    from verif.api import guarded
    rng = rng_for('C17l', case['seed'], case['idx'])
    dim = int(rng.choice([1, 2, 2, 3]))
    kcs, kvs = _space(rng, dim, pmin=0, pmax=5 if dim == 1 else (3 if dim == 2 else 2), max_spans=4 if dim < 3 else 2)
    N = tuple(kv.numdofs for kv in kvs)
    out = [(), (), (2,), (2, 2)][int(rng.integers(0, 4))]
    C = rng.standard_normal(N + out)
    form = ['spline', 'callable'][int(rng.integers(0, 2))]
    c = dict(case, dim=dim, kvs=kcs, out=list(out), form=form)
    masses = [assemble.bsp_mass_1d(kv).toarray() for kv in kvs]
    cond = _cond_kron(masses)
    bound = 1e-11 * cond * (np.abs(C).max() + 1)
    rec.case(c, nontrivial=(int(np.prod(N)) >= 2 and bound < 1e-3))
    sig = {'route': 'approx.project_L2', 'dim': dim, 'form': form, 'out': len(out)}
    f = bspline.BSplineFunc(kvs, C.copy()) if form == 'spline' else _grid_callable(kvs, C)
    arg = kvs if (dim > 1 or rng.random() < 0.5) else kvs[0]
    ok, ch = guarded(rec, c, sig, approx.project_L2, arg, f)
    if not ok: return
    ch = np.asarray(ch)
    if ch.shape != C.shape:
        rec.violation(dict(sig, oracle='coefficient array shape'), c, {'got': list(ch.shape), 'want': list(C.shape)}); return
    if bound < 1e-3:
        rec.check_close('l2_reproduction', float(np.abs(ch - C).max()), float(bound), sig, c)
    # component-wise treatment: projecting each component separately gives the same coefficients
    if out:
        idx = tuple(int(rng.integers(0, s)) for s in out)
        fs = bspline.BSplineFunc(kvs, C[(Ellipsis,) + idx].copy())
        ok, c1 = guarded(rec, c, dict(sig, oracle_input='single component'), approx.project_L2, kvs, fs)
        if ok: rec.check_close('componentwise', float(np.abs(np.asarray(c1) - ch[(Ellipsis,) + idx]).max()), float(1e-11 * cond * (np.abs(C).max() + 1)), sig, c)
    # orthogonality of the residual for data outside the space (polynomial of a degree the p+1 point rule integrates exactly)
    pm = min(kv.p for kv in kvs)
    deg = pm + 1
    cf = rng.standard_normal(dim)
    def g(*x):
        return sum(cf[d] * x[d] ** deg for d in range(dim)) + 1.0
    ok, cg = guarded(rec, c, dict(sig, data='outside'), approx.project_L2, kvs, g)
    if ok:
        gx, W = _gauss_ref(kvs, nq=max(kv.p for kv in kvs) + 4)
        mesh = list(reversed(np.meshgrid(*gx, indexing='ij')))
        k = tp.kvs_of(kvs)
        res = (g(*mesh) - tp.grid_eval(k, np.asarray(cg), gx)) * W
        colls = [bsp.collocation_dense(kv.kv.tolist(), kv.p, x.tolist()) for kv, x in zip(kvs, gx)]
        ip = res
        for ax, Cm in enumerate(colls): ip = np.moveaxis(np.tensordot(Cm.T, ip, axes=([1], [ax])), 0, ax)
        fn = np.sqrt((g(*mesh) ** 2 * W).sum())
        rec.check_close('l2_orthogonality', float(np.abs(ip).max()), float(1e-10 * cond ** 0.5 * fn + 1e-12 * cond * fn), sig, c)
    if dim == 1 and not out:
        kv = kvs[0]
        fn1 = lambda x: np.array([float(bsp.eval_spline(kv.kv.tolist(), kv.p, C, float(t))) for t in np.atleast_1d(x)])
        ok, ch1 = guarded(rec, c, dict(sig, route='bspline.project_L2'), bspline.project_L2, kv, fn1)
        if ok and bound < 1e-3:
            rec.check_close('l2_reproduction', float(np.abs(np.asarray(ch1) - C).max()), float(bound), dict(sig, route='bspline.project_L2'), c)

def _l2geo(rec, case):
    from pyiga import approx, bspline, assemble, geometry
    from refmodels import tp
    from verif.gen import rng_for
    from verif.api import guarded
    rng = rng_for('C17g', case['seed'], case['idx'])
    dim = 2 if case['idx'] % 4 else 3
    kcs, kvs = _space(rng, dim, pmin=1, pmax=3 if dim == 2 else 2, max_spans=3 if dim == 2 else 2)
    N = tuple(kv.numdofs for kv in kvs)
    gk = str(rng.choice(['affine', 'annulus', 'identity'])) if dim == 2 else str(rng.choice(['affine', 'identity']))
    if gk == 'identity': geo = geometry.identity(kvs); A = np.eye(dim); b = np.zeros(dim)
    elif gk == 'affine':
        A = rng.standard_normal((dim, dim)) * 0.3 + np.eye(dim); b = rng.standard_normal(dim)
        if rng.random() < 0.35:
            A[:, int(rng.integers(0, dim))] *= -1.0; gk = 'affine_reflected'         # orientation reversing: det J < 0 is a nonvanishing Jacobian too
        geo = (geometry.unit_square() if dim == 2 else geometry.unit_cube()).apply_matrix(A).translate(b)
    else: geo = geometry.quarter_annulus(); A = b = None
    C = rng.standard_normal(N)
    c = dict(case, dim=dim, kvs=kcs, geo=gk)
    M = assemble.mass(kvs, geo).toarray()
    cond = np.linalg.cond(M)
    bound = 1e-9 * cond * (np.abs(C).max() + 1)
    rec.case(c, nontrivial=bound < 1e-3)
    sig = {'route': 'approx.project_L2(geo)', 'dim': dim, 'geo': gk}
    f = bspline.BSplineFunc(kvs, C.copy())
    err = io.StringIO()
    with contextlib.redirect_stderr(err):
        ok, ch = guarded(rec, c, sig, approx.project_L2, kvs, f, False, geo)
    if not ok: return
    ch = np.asarray(ch)
    warned = 'did not converge' in err.getvalue()
    rhs = assemble.inner_products(kvs, f, f_physical=False, geo=geo).ravel()
    rec.count('oracle:l2_cg_residual')
    relres = float(np.linalg.norm(M @ ch.ravel() - rhs) / (np.linalg.norm(rhs) + 1e-300))
    rec.ratio('l2_cg_residual', relres, 1e-10)
    if warned or not relres <= 1e-10:
        rec.violation(dict(sig, oracle='solver reaches the requested residual without warning'), c, {'warned': warned, 'relative_residual': relres, 'cond': float(cond)})
    if ch.shape != C.shape:
        rec.violation(dict(sig, oracle='coefficient array shape'), c, {'got': list(ch.shape)}); return
    if bound < 1e-3:
        rec.check_close('l2_reproduction', float(np.abs(ch - C).max()), float(bound), sig, c)
    # physical data vs its pull-back
    cf = rng.standard_normal(dim + 1)
    gphys = (lambda x, y: cf[0] + cf[1] * x + cf[2] * y * x) if dim == 2 else (lambda x, y, z: cf[0] + cf[1] * x + cf[2] * y * z)
    def gpull(*xi):
        grids = [np.asarray(a, dtype=float).ravel() for a in reversed(xi)]
        P = np.asarray(geo.grid_eval(grids), dtype=float)
        return gphys(*[P[..., d] for d in range(dim)])
    with contextlib.redirect_stderr(io.StringIO()):
        ok1, c1 = guarded(rec, c, dict(sig, data='physical'), approx.project_L2, kvs, gphys, True, geo)
        ok2, c2 = guarded(rec, c, dict(sig, data='pullback'), approx.project_L2, kvs, gpull, False, geo)
    if ok1 and ok2:
        rec.check_close('physical_pullback', float(np.abs(np.asarray(c1) - np.asarray(c2)).max()), float(1e-9 * cond * (np.abs(np.asarray(c1)).max() + 1)), sig, c)

def _hspace(rec, case):
    from pyiga import approx, hierarchical, geometry
    from verif import hgen
    from verif.gen import rng_for
    from verif.api import guarded
    rng = rng_for('C17h', case['seed'], case['idx'])
    desc = hgen.random_desc(rng, dims=(1, 2, 2), pmax=3, n0max=3, max_steps=3, max_levels=3, bd_choices=('none', 'empty'))
    hs, hist = hgen.build(desc)
    desc = dict(desc, history=hist)
    n = hs.numdofs
    u = rng.standard_normal(n)
    c = dict(case, space=desc)
    sig = {'route': 'approx.project_L2(HSpace)', 'dim': hs.dim, 'truncate': bool(hs.truncate)}
    f = hierarchical.HSplineFunc(hs, u.copy())
    gk = 'none' if rng.random() < 0.5 or hs.dim == 1 else 'affine'
    geo = None
    if gk == 'affine':
        A = rng.standard_normal((2, 2)) * 0.3 + np.eye(2)
        A_geo = A; b_geo = rng.standard_normal(2)
        geo = geometry.unit_square().apply_matrix(A).translate(b_geo)
    ok, uh = guarded(rec, c, dict(sig, geo=gk), approx.project_L2, hs, f, False, geo)
    # condition number from the finest-level representation (independent of the hierarchical assembler)
    from pyiga import assemble
    kv_f = hs.knotvectors(hs.numlevels - 1)
    Mf = assemble.mass(kv_f) if geo is None else assemble.mass(kv_f, geo)
    I = hs.represent_fine()
    Mh = (I.T @ Mf @ I).toarray()
    cond = np.linalg.cond(Mh)
    bound = 1e-10 * cond * (np.abs(u).max() + 1)
    rec.case(c, nontrivial=(hs.numlevels >= 2 and bound < 1e-3))
    if ok and bound < 1e-3:
        uh = np.asarray(uh)
        if uh.shape != u.shape:
            rec.violation(dict(sig, oracle='coefficient vector length'), c, {'got': list(uh.shape)}); return
        rec.check_close('hspace_projection', float(np.abs(uh - u).max()), float(bound),
                        dict(sig, geo=gk, data='function with fine-level components' if hs.numlevels >= 2 else 'single level'), c)
    # functions of the coarsest tensor-product space are piecewise polynomials on every level's mesh, so every
    # level's quadrature is exact for them: they must be reproduced
    from pyiga import bspline
    from refmodels import tp
    kv0 = hs.knotvectors(0)
    C0 = rng.standard_normal(tuple(k.numdofs for k in kv0))
    f0 = bspline.BSplineFunc(kv0, C0.copy())
    ok, u0 = guarded(rec, c, dict(sig, geo=gk, data='coarsest-level spline'), approx.project_L2, hs, f0, False, geo)
    if ok and bound < 1e-3:
        fine = np.asarray(I @ np.asarray(u0)).reshape(tuple(k.numdofs for k in kv_f))
        grids = [np.linspace(k.kv[0], k.kv[-1], 9) for k in kv_f]
        got = tp.grid_eval(tp.kvs_of(kv_f), fine, grids); want = tp.grid_eval(tp.kvs_of(kv0), C0, grids)
        rec.check_close('hspace_projection_level0', float(np.abs(got - want).max()), float(1e-10 * cond * (np.abs(C0).max() + 1)),
                        dict(sig, geo=gk, data='coarsest-level spline'), c)
    # plain callables: a multilinear polynomial lies in every level's space (p >= 1), given in parametric coordinates
    # (f_physical=False) or, pulled back through the geometry, in physical coordinates (f_physical=True)
    if bound < 1e-3 and all(k.p >= 1 for k in kv0):
        cf = rng.uniform(0.5, 1.5, 4)
        def fpar(*X):          # X in xyz order = reversed parametric axes
            if len(X) == 1: return cf[0] + cf[1] * X[0]
            x_, y_ = X[0], X[1]
            return cf[0] + cf[1] * x_ + cf[2] * y_ + cf[3] * x_ * y_
        grids = [np.linspace(k.kv[0], k.kv[-1], 7) for k in kv_f]
        GX = np.meshgrid(*grids, indexing='ij')                       # axis order (y, x)
        want = fpar(*reversed(GX))
        variants = [('parametric callable', fpar, False)]
        if geo is not None:
            Ainv = np.linalg.inv(A_geo); b_geo_ = b_geo
            def fphys(*Xp):
                P_ = np.stack([np.asarray(x, dtype=float) for x in np.broadcast_arrays(*Xp)], axis=-1)
                xi = (P_ - b_geo_) @ Ainv.T
                return fpar(xi[..., 0], xi[..., 1])
            variants.append(('physical callable', fphys, True))
        for dname, fn, phys in variants:
            ok, uc = guarded(rec, c, dict(sig, geo=gk, data=dname), approx.project_L2, hs, fn, phys, geo)
            if ok:
                fine = np.asarray(I @ np.asarray(uc)).reshape(tuple(k.numdofs for k in kv_f))
                got = tp.grid_eval(tp.kvs_of(kv_f), fine, grids)
                rec.check_close('hspace_projection_callable', float(np.abs(got - want).max()), float(1e-9 * cond * (np.abs(cf).sum() + 1)), dict(sig, geo=gk, data=dname), c)
