"""C08 — assembly is independent of symmetry flag, format, layout, subset, thread count.

Differential monitor: for each (form, space, inputs) one canonical operator (symmetric=False, csr, blocked), tied to the
independent reference assembler of C01 (forms.refasm), and every other configuration mapped onto it:
formats by .toarray() / MLMatrix.asmatrix(), packed <-> blocked by the explicit index permutation, subsets through
multi_entries / multi_blocks / entry / MLStructure.nonzeros_for_rows, on-demand bounding boxes, update()/update_params()
versus construction from scratch, one assembler object assembled repeatedly.
Schedule monitor: the raw result arrays of multi_entries / multi_blocks / the prange cores / assemble() must be bitwise equal
for every worker-thread count (one process, the pool is created once) and for index arrays of awkward lengths.
Thorough adds the asan build (mirrored writes of the symmetric cores) and the tsan build (thread-pool path).
"""
import os, sys, json
import numpy as np

PROPERTY = 'C08'
LEVEL = 'exploration'
RULE = ('forms: Laplace, weighted mass with an updatable field, convection with a parameter, div-div, vector Laplace, non-square component couplings (d x 1, 1 x d, '
        '3 x 2), scalar and vector functionals, 1D vector mass; dims 1-3; random problems (knots, B-spline/NURBS geometry, fields) from the C01 generator; '
        'configurations: symmetric x format {csr,csc,coo,bsr,mlb} x layout {blocked,packed}; thread counts quick {1,2,3,5,16}, thorough 1..16; '
        'a case is one (form, problem); non-trivial if at least 4 configurations and 3 thread counts were compared')
MIN_NONTRIVIAL = {'quick': 40, 'thorough': 400}
REQUIRED_COUNTERS = ['oracle:config_vs_canonical', 'oracle:canonical_vs_reference', 'oracle:packed_blocked_permutation', 'oracle:subset_entries', 'oracle:subset_blocks',
                     'oracle:rows_subset', 'oracle:on_demand_bbox', 'oracle:update_vs_fresh', 'oracle:update_params_vs_fresh', 'oracle:reuse_bitwise',
                     'oracle:threads_bitwise', 'oracle:history_vs_reference', 'config:symmetric', 'config:mlb', 'config:bsr_packed', 'schedules:distinct']
ASSUMPTIONS = ['configurations are compared at 1e-12 relative to the largest entry (rounding accuracy); thread counts bitwise']
VARIANTS = {'quick': ['plain'], 'thorough': ['plain', 'asan', 'tsan']}
WORKERS_SAN = 6
TIMEOUT = {'quick': 2400, 'thorough': 14400}

C = lambda c: ['const', float(c)]
def _mul(*a):
    r = a[0]
    for b in a[1:]: r = ['*', r, b]
    return r

def forms(dim):
    d = dim; out = []
    def F(name, arity, comps, exprs, fields=None, params=None, sym=False):
        out.append({'name': name, 'dim': d, 'geo_dim': d, 'boundary': False, 'arity': arity, 'components': list(comps), 'spaces': [0, 0],
                    'params': params or {}, 'fields': fields or {}, 'exprs': exprs, 'grammar': 'G0', 'symmetric_form': sym})
    gu, gv = ['grad', ['u'], False], ['grad', ['v'], False]
    F('laplace', 2, (None, None), [_mul(['inner', gu, gv], ['dx'])], sym=True)
    F('weighted_mass', 2, (None, None), [_mul(['field', 'f'], ['u'], ['v'], ['dx'])], fields={'f': {'shape': [], 'physical': False, 'updatable': True}}, sym=True)
    # an updatable field used at two derivative orders (value and gradient): two stored arrays, both must follow update()
    F('field_two_orders', 2, (None, None), [_mul(['field', 'f'], ['u'], ['v'], ['dx']), _mul(['inner', ['grad', ['field', 'f'], True], gu], ['v'], ['dx'])],
      fields={'f': {'shape': [], 'physical': False, 'updatable': True}})
    F('convection', 2, (None, None), [_mul(['inner', ['param', 'b'], gu], ['v'], ['dx']), _mul(['param', 'c'], ['u'], ['v'], ['dx'])], params={'b': [d], 'c': []})
    # a parameter-only subexpression that occurs twice: the compiler precomputes it into a derived constant
    kk = ['fn', 'sqrt', ['+', C(1.0), ['inner', ['param', 'b'], ['param', 'b']]]]
    F('param_derived', 2, (None, None), [_mul(kk, ['inner', ['param', 'b'], gu], ['v'], ['dx']), _mul(kk, ['param', 'c'], ['u'], ['v'], ['dx'])], params={'b': [d], 'c': []})
    F('functional', 1, (None, None), [_mul(['field', 'f'], ['u'], ['dx'])], fields={'f': {'shape': [], 'physical': True, 'updatable': True}})
    F('vector_mass', 2, (2, 2), [_mul(['inner', ['u'], ['v']], ['dx'])], sym=True)
    F('vector_functional', 1, (2, None), [_mul(['inner', ['param', 'p'], ['u']], ['dx'])], params={'p': [2]})
    if d >= 2:
        F('divdiv', 2, (d, d), [_mul(['div', ['u'], False], ['div', ['v'], False], ['dx'])], sym=True)
        F('vector_laplace', 2, (d, d), [_mul(['inner', gu, gv], ['dx'])], sym=True)
        F('coupling_dx1', 2, (d, 1), [_mul(['div', ['u'], False], ['v'], ['dx'])])
        F('coupling_1xd', 2, (1, d), [_mul(['u'], ['div', ['v'], False], ['dx'])])
        F('coupling_3x2', 2, (3, 2), [_mul(['+', ['inner', ['idx', ['u'], ['s', 0, 2]], ['v']], _mul(['idx', ['u'], 2], ['Dx', ['idx', ['v'], 0], 0, False])], ['dx'])])
    return out

def cases(tier, seed):
    san = os.environ.get('VERIF_VARIANT', 'plain') != 'plain'
    nprob = {'quick': 2, 'thorough': 14}[tier]
    if san: nprob = 2
    for dim in (1, 2, 3):
        for f in forms(dim):
            for k in range(nprob):
                yield {'kind': 'form', 'dim': dim, 'form': f['name'], 'seed': seed, 'k': k}
    # histories: the same form assembled on a sequence of spaces which agree in every discrete characteristic (degree, number of
    # spans, number of dofs) but not in the position of knots / repeated knots -- nothing may be carried over between assemblies
    for dim in (1, 2):
        for name in ('laplace', 'convection', 'vector_laplace' if dim == 2 else 'vector_mass'):
            for k in range({'quick': 2, 'thorough': 12}[tier] if not san else 1):
                yield {'kind': 'history', 'dim': dim, 'form': name, 'seed': seed, 'k': k}

def _dense(A):
    if hasattr(A, 'asmatrix'): A = A.asmatrix()
    return A.toarray() if hasattr(A, 'toarray') else np.asarray(A)

def _close(rec, name, A, B, scale, sig, case, extra=None):
    A = np.asarray(A, dtype=float); B = np.asarray(B, dtype=float)
    if A.shape != B.shape:
        rec.violation(dict(sig, oracle=name, what='shape'), case, dict(extra or {}, got=list(A.shape), expected=list(B.shape))); return False
    err = float(np.max(np.abs(A - B))) if A.size else 0.0
    if not np.isfinite(err): err = float('inf')
    return rec.check_close(name, err, 1e-12 * scale + 1e-300, sig, case, extra)

def _history(rec, case):
    import pyiga
    from forms import build, refasm
    from verif.gen import rng_for
    from pyiga import assemble
    desc = [f for f in forms(case['dim']) if f['name'] == case['form']][0]
    rng = rng_for('C08h', case['seed'], case['dim'], case['form'], case['k'])
    sig = {'form': desc['name'], 'dim': desc['dim'], 'vector': bool(desc['components'][0] or desc['components'][1]), 'route': 'history'}
    for _ in range(50):
        base = refasm.random_problem(rng, desc, max_spans=3)
        if refasm.geometry_ok(desc, base): break
    d = desc['dim']
    # per axis: degree p >= 2, 3 or 4 spans, a multiset of interior multiplicities, permuted from step to step
    axes = []
    for a in range(d):
        p = int(rng.integers(2, 4)); ns = int(rng.integers(3, 5))
        mults = [int(rng.integers(1, p + 1)) for _ in range(ns - 1)]
        if len(set(mults)) == 1: mults[0] = 1 if mults[0] > 1 else 2
        axes.append((p, ns, mults))
    pyiga.set_max_threads(1)
    n = 0
    for step in range(5):
        pr = json.loads(json.dumps(base)); kvl = []
        for (p, ns, mults) in axes:
            m = [int(x) for x in rng.permutation(mults)]
            br = np.linspace(0, 1, ns + 1) if rng.random() < 0.5 else np.concatenate([[0.0], np.sort(rng.uniform(0.15, 0.85, ns - 1)), [1.0]])
            if np.min(np.diff(br)) < 0.08: br = np.linspace(0, 1, ns + 1)
            kn = [float(br[0])] * (p + 1)
            for b, mm in zip(br[1:-1], m): kn += [float(round(b, 4))] * mm
            kn += [float(br[-1])] * (p + 1)
            kvl.append((kn, p))
        pr['kvs'] = [kvl]
        c = dict(case, step=step, problem=pr)
        kv, args, bd = refasm.to_pyiga_inputs(pr, desc)
        R = refasm.reference(desc, pr)
        for symmetric in ([False, True] if desc['symmetric_form'] else [False]):
            A = _dense(assemble.assemble(build.make_vform(desc), kv, args=dict(args), symmetric=symmetric)).reshape(R['A'].shape)
            tol = 1e-10 * (R['Aabs'] + R['Aabs'].max())
            worst = float(np.max(np.abs(A - R['A']) / (tol + 1e-300)))
            rec.count('oracle:history_vs_reference'); rec.ratio('history_vs_reference', worst, 1.0); n += 1
            if not worst <= 1.0:
                bad = np.abs(A - R['A']) > tol
                rec.violation(dict(sig, oracle='operator does not depend on what was assembled before', symmetric=symmetric), c,
                              {'step': step, 'worst_ratio': worst, 'entries_off': int(bad.sum()), 'missing_entries': int(np.sum(bad & (A == 0.0)))})
                rec.case(c, nontrivial=True); return
    rec.case(dict(case, axes=axes), nontrivial=n >= 5)

def run_case(rec, case):
    if case['kind'] == 'history': return _history(rec, case)
    import pyiga
    from forms import build, refasm
    from verif.gen import rng_for
    from pyiga import assemble, compile as Cmp, bspline
    from pyiga.mlmatrix import MLStructure
    desc = [f for f in forms(case['dim']) if f['name'] == case['form']][0]
    rng = rng_for('C08', case['seed'], case['dim'], case['form'], case['k'])
    tier = os.environ.get('VERIF_TIER', 'quick')
    san = os.environ.get('VERIF_VARIANT', 'plain') != 'plain'
    for _ in range(50):
        problem = refasm.random_problem(rng, desc, max_spans=3 if case['dim'] < 3 else 2)
        if refasm.geometry_ok(desc, problem): break
    c = dict(case, problem=problem)
    sig = {'form': desc['name'], 'dim': desc['dim'], 'vector': bool(desc['components'][0] or desc['components'][1])}
    kv, args, bd = refasm.to_pyiga_inputs(problem, desc)
    mkvf = lambda: build.make_vform(desc)
    pyiga.set_max_threads(1)
    nconf = 0; nthr = 0
    # ---- canonical
    asm = assemble.instantiate_assembler(mkvf(), kv, dict(args), None, None)
    A0 = _dense(assemble.assemble_entries(asm, symmetric=False, format='csr', layout='blocked'))
    R = refasm.reference(desc, problem)
    A0 = A0.reshape(R['A'].shape)
    tol = 1e-10 * (R['Aabs'] + R['Aabs'].max())
    worst = float(np.max(np.abs(A0 - R['A']) / (tol + 1e-300)))
    rec.count('oracle:canonical_vs_reference'); rec.ratio('canonical_vs_reference', worst, 1.0)
    if not worst <= 1.0:
        rec.violation(dict(sig, oracle='canonical configuration equals the reference assembler'), c, {'worst_ratio': worst}); rec.case(c, nontrivial=True); return
    scale = float(np.max(np.abs(A0))) if A0.size else 1.0
    vec = sig['vector']
    cu, cv = desc['components'][0], desc['components'][1]
    if desc['arity'] == 1:
        # functionals: layouts only
        for layout in ('blocked', 'packed'):
            v = np.asarray(assemble.assemble_entries(asm, layout=layout)); nconf += 1; rec.count('oracle:config_vs_canonical')
            if vec and layout == 'packed':
                v = np.moveaxis(v, -1, 0); rec.count('oracle:packed_blocked_permutation')
            _close(rec, 'config_vs_canonical', v.reshape(-1), A0.reshape(-1), scale, dict(sig, layout=layout), c)
        if vec:
            W0 = assemble.Assembler(mkvf(), kv, args=dict(args))
            vp = np.moveaxis(np.asarray(W0.assemble(layout='packed')), -1, 0)
            _close(rec, 'config_vs_canonical', vp.reshape(-1), A0.reshape(-1), scale, dict(sig, route='Assembler.assemble', layout='packed'), c)
        v1 = np.asarray(asm.assemble_vector()); v2 = np.asarray(asm.assemble_vector())
        rec.count('oracle:reuse_bitwise')
        if not np.array_equal(v1, v2): rec.violation(dict(sig, oracle='an assembler object assembled twice gives the same vector'), c, {})
    else:
        nv, nu = R['nv'], R['nu']; Nv, Nu = int(np.prod(R['shape_v'])), int(np.prod(R['shape_u']))
        # permutation packed -> blocked
        def unpack(Ap):
            Ap = Ap.reshape(Nv, nv, Nu, nu); return np.transpose(Ap, (1, 0, 3, 2)).reshape(nv * Nv, nu * Nu)
        formats = ['csr', 'csc', 'coo', 'bsr'] + (['mlb'] if vec else [])
        layouts = ['blocked', 'packed'] if vec else ['blocked']
        syms = [False, True] if desc['symmetric_form'] else [False]
        for symmetric in syms:
            for fmt in formats:
                for layout in layouts:
                    cs = dict(sig, symmetric=symmetric, format=fmt, layout=layout)
                    try:
                        X = assemble.assemble_entries(asm, symmetric=symmetric, format=fmt, layout=layout)
                    except Exception as ex:
                        import traceback
                        rec.violation(dict(cs, oracle='configuration assembles', exc=type(ex).__name__), c, {'msg': str(ex)[:300], 'where': traceback.extract_tb(ex.__traceback__)[-1].name}); continue
                    D = _dense(X)
                    if vec and layout == 'packed':
                        D = unpack(D); rec.count('oracle:packed_blocked_permutation')
                    nconf += 1
                    if symmetric: rec.count('config:symmetric')
                    if fmt == 'mlb': rec.count('config:mlb')
                    if fmt == 'bsr' and layout == 'packed': rec.count('config:bsr_packed')
                    _close(rec, 'config_vs_canonical', D, A0, scale, cs, c)
        # ---- the same through the public assemble() with a fresh form object
        X = _dense(assemble.assemble(mkvf(), kv, args=dict(args), symmetric=False, format='csr', layout='blocked'))
        _close(rec, 'config_vs_canonical', X, A0, scale, dict(sig, route='assemble()'), c); nconf += 1
        # ---- the assembler object itself as `problem` (documented: kvs and args are ignored then)
        try:
            X = _dense(assemble.assemble(asm, kv))
            _close(rec, 'config_vs_canonical', X, A0, scale, dict(sig, route='assemble(assembler object)'), c); nconf += 1
        except Exception as ex:
            rec.violation(dict(sig, oracle='assemble() accepts an assembler object', exc=type(ex).__name__), c, {'msg': str(ex)[:200]})
        # ---- the Assembler wrapper with explicit format/layout
        W0 = assemble.Assembler(mkvf(), kv, args=dict(args), symmetric=False)
        for fmt, layout in ([('csr', 'packed'), ('bsr', 'packed'), ('csc', 'blocked')] if vec else [('csc', 'blocked'), ('coo', 'blocked')]):
            D = _dense(W0.assemble(format=fmt, layout=layout))
            if vec and layout == 'packed': D = unpack(D)
            nconf += 1; rec.count('oracle:config_vs_canonical')
            _close(rec, 'config_vs_canonical', D, A0, scale, dict(sig, route='Assembler.assemble', format=fmt, layout=layout), c)
        # ---- reuse
        Xa = [assemble.assemble_entries(asm).toarray() for _ in range(3)]
        rec.count('oracle:reuse_bitwise')
        if not all(np.array_equal(Xa[0], x) for x in Xa[1:]):
            rec.violation(dict(sig, oracle='an assembler object assembled repeatedly gives the same operator'), c, {})
        # ---- subsets
        n_idx = [1, 7, 31, 64, 97][int(rng.integers(0, 5))]
        I = rng.integers(0, Nv, size=n_idx); Jx = rng.integers(0, Nu, size=n_idx)
        idx = np.column_stack([I, Jx]).astype(np.uintp)
        if not vec:
            E = np.asarray(asm.multi_entries(idx)); rec.count('oracle:subset_entries', n_idx)
            _close(rec, 'subset_entries', E, A0[I, Jx], scale, dict(sig, route='multi_entries'), c)
            e = np.array([asm.entry(int(i), int(j)) for i, j in zip(I[:5], Jx[:5])])
            _close(rec, 'subset_entries', e, A0[I[:5], Jx[:5]], scale, dict(sig, route='entry'), c)
            # rows
            S = MLStructure.from_kvs(*asm.kvs)
            rows = np.unique(rng.integers(0, Nv, size=int(rng.integers(1, 6))))
            RI, RJ = S.nonzeros_for_rows(rows)
            Er = np.asarray(asm.multi_entries(np.column_stack([RI, RJ]).astype(np.uintp)))
            M = np.zeros_like(A0); M[RI, RJ] = Er
            rec.count('oracle:rows_subset', len(rows))
            _close(rec, 'rows_subset', M[rows, :], A0[rows, :], scale, dict(sig, route='nonzeros_for_rows+multi_entries'), c)
        else:
            B = np.asarray(asm.multi_blocks(idx)); rec.count('oracle:subset_blocks', n_idx)
            A4 = A0.reshape(nv, Nv, nu, Nu)
            expect = np.transpose(A4[:, I, :, Jx], (0, 1, 2)) if False else np.stack([A4[:, i, :, j] for i, j in zip(I, Jx)])
            _close(rec, 'subset_blocks', B, expect, scale, dict(sig, route='multi_blocks'), c)
        # ---- on-demand bounding box (scalar and vector)
        try:
            cls = Cmp.compile_vform(mkvf(), on_demand=True)
            kvs0 = kv if isinstance(kv[0], bspline.KnotVector) else kv[0]
            bbox = []
            for k_ in kvs0:
                ns = k_.numspans; a = int(rng.integers(0, ns)); b = int(rng.integers(a + 1, ns + 1)); bbox.append((a, b))
            used = {n: args[n] for n in list(cls.inputs().keys()) + list(cls.parameters().keys())}
            oasm = cls(kvs0, bbox=tuple(bbox), **used)
            # pairs whose supports both lie inside the box
            ok_axis = []
            for k_, (a, b) in zip(kvs0, bbox):
                ms = k_.mesh_support_idx_all(); ok_axis.append(np.array([(s0 >= a and s1 <= b) for s0, s1 in ms]))
            inside = ok_axis[0]
            for oa in ok_axis[1:]: inside = np.kron(inside, oa)
            cand = np.nonzero(inside)[0]
            if len(cand):
                I2 = rng.choice(cand, size=min(40, len(cand) ** 2)); J2 = rng.choice(cand, size=len(I2))
                idx2 = np.column_stack([I2, J2]).astype(np.uintp)
                if not vec:
                    E2 = np.asarray(oasm.multi_entries(idx2)); _close(rec, 'on_demand_bbox', E2, A0[I2, J2], scale, dict(sig, route='on_demand multi_entries'), c, {'bbox': bbox})
                else:
                    B2 = np.asarray(oasm.multi_blocks(idx2)); A4 = A0.reshape(nv, Nv, nu, Nu)
                    _close(rec, 'on_demand_bbox', B2, np.stack([A4[:, i, :, j] for i, j in zip(I2, J2)]), scale, dict(sig, route='on_demand multi_blocks'), c, {'bbox': bbox})
        except Exception as ex:
            import traceback
            rec.violation(dict(sig, oracle='on-demand assembler works', exc=type(ex).__name__), c, {'msg': str(ex)[:300], 'where': traceback.extract_tb(ex.__traceback__)[-1].name})
    # ---- updates versus fresh construction
    upd = [n for n, f in desc['fields'].items() if f.get('updatable')]
    if upd:
        name = upd[0]
        problem2 = json.loads(json.dumps(problem))
        f2 = refasm.random_problem(rng, desc)['fields'][name]; problem2['fields'][name] = f2
        _, args2, _ = refasm.to_pyiga_inputs(problem2, desc)
        W = assemble.Assembler(mkvf(), kv, args=dict(args), updatable=[name])
        first = _dense(W.assemble())
        _close(rec, 'config_vs_canonical', first.reshape(A0.shape), A0, scale, dict(sig, route='Assembler.assemble'), c)
        upd_res = _dense(W.assemble(**{name: args2[name]}))
        fresh = _dense(assemble.assemble(mkvf(), kv, args=dict(args2)))
        rec.count('oracle:update_vs_fresh')
        _close(rec, 'update_vs_fresh', upd_res, fresh, max(scale, float(np.max(np.abs(fresh)))), dict(sig, route='Assembler.update'), c)
        # and back again
        back = _dense(W.assemble(**{name: args[name]}))
        _close(rec, 'update_vs_fresh', back.reshape(A0.shape), A0, scale, dict(sig, route='Assembler.update back'), c)
    if desc['params']:
        import re as _re
        derived = bool(_re.search(r'^\s*constants\[\d+\] = ', Cmp.generate(mkvf()), _re.M))      # constants computed from parameters in precompute_fields
        sig = dict(sig, derived_constants=derived)
        newp = {n: (rng.uniform(0.5, 1.5, tuple(s)) if s else float(rng.uniform(0.5, 1.5))) for n, s in desc['params'].items()}
        a2 = assemble.instantiate_assembler(mkvf(), kv, dict(args), None, None)
        a2.update_params(**newp)
        updp = _dense(assemble.assemble_entries(a2))
        args3 = dict(args); args3.update(newp)
        fresh = _dense(assemble.assemble(mkvf(), kv, args=args3))
        rec.count('oracle:update_params_vs_fresh')
        _close(rec, 'update_params_vs_fresh', updp, fresh, max(scale, float(np.max(np.abs(fresh)))), dict(sig, route='update_params'), c)
        # partial update: only the first parameter, the others keep their values
        n0 = list(desc['params'])[0]
        a3 = assemble.instantiate_assembler(mkvf(), kv, dict(args), None, None)
        a3.update_params(**{n0: newp[n0]})
        args4 = dict(args); args4[n0] = newp[n0]
        _close(rec, 'update_params_vs_fresh', _dense(assemble.assemble_entries(a3)), _dense(assemble.assemble(mkvf(), kv, args=args4)), scale, dict(sig, route='update_params partial'), c)
    # ---- thread counts: bitwise
    counts = [2, 3, 5, 16, 1] if tier == 'quick' or san else list(range(2, 17)) + [1, 7, 1]
    if desc['arity'] == 2:
        S = MLStructure.from_kvs(*asm.kvs)
        IJ = S.nonzero()
        allidx = np.column_stack(IJ).astype(np.uintp)
        lens = sorted(set([1, 2, 15, 16, 17, 31, 97, len(allidx) - 1, len(allidx)]) & set(range(1, len(allidx) + 1)))
        base = {}
        def results():
            out = {}
            for L in lens:
                sub = allidx[:L]
                out['sub%d' % L] = np.asarray(asm.multi_blocks(sub) if vec else asm.multi_entries(sub))
            X = assemble.assemble_entries(asm, symmetric=False)
            out['assemble'] = X.toarray()
            if desc['symmetric_form']:
                out['assemble_sym'] = assemble.assemble_entries(asm, symmetric=True).toarray()
            if vec:
                out['mlb'] = np.asarray(assemble.assemble_entries(asm, format='mlb', layout='packed').data)
            return out
        base = results()
        scheds = set()
        for n in counts:
            pyiga.set_max_threads(n)
            r = results(); nthr += 1
            for k_, v in r.items():
                rec.count('oracle:threads_bitwise')
                scheds.add((n, k_))
                if not np.array_equal(v, base[k_]):
                    d_ = float(np.max(np.abs(v - base[k_]))) if v.shape == base[k_].shape else None
                    rec.violation(dict(sig, oracle='result is bitwise identical for every thread count', route=k_.rstrip('0123456789')), dict(c, threads=n),
                                  {'threads': n, 'what': k_, 'max_abs_diff': d_})
        rec.count('schedules:distinct', len(scheds))
        pyiga.set_max_threads(1)
    rec.case(c, nontrivial=(desc['arity'] == 1 or (nconf >= 4 and nthr >= 3)), key={'form': desc['name'], 'dim': desc['dim'], 'problem': problem})
