"""C01 — compiled assemblers compute exactly the integrand the variational form denotes.

Every generated form is compiled for real (Cython -> C -> shared object, private cache directory), instantiated on random
open knot vectors (mixed degrees, repeated knots, non-uniform spans; a second space on the same mesh for Petrov-Galerkin forms),
a random perturbed B-spline or NURBS geometry (volume, surface or boundary face), random spline / callable input fields and
parameter values, and every entry is compared with an independent reference assembler (forms.refasm): own Cox-de Boor basis
jets, own geometry/field jets, the semantic interpreter on the generator's AST, kernel extraction by unit jets, Gauss-Legendre
sums with max-degree+1 nodes per span.  Entries of pairs without common support must be exactly zero and not stored.
A form of the guide's sub-grammar (G0) that is rejected is a violation; for the rest of the grammar (G1) an exception raised
while the form is constructed or code is generated is an explicit rejection (tallied by type), but once code has been
generated, failure to build, import, instantiate or assemble is a violation.
"""
import os, sys, json, tempfile, traceback
import numpy as np

PROPERTY = 'C01'
LEVEL = 'exploration'
RULE = ('forms: the guide\'s constructs (G0) in dims 1-3 and random forms over the documented grammar (G1; see forms.gen), each compiled and assembled on 2 random '
        'problems (knot vectors with degrees 1-4, 1-3 spans per axis, interior multiplicities 1..p; B-spline/NURBS geometry with det J >= 0.2 resp. |n| >= 0.2 checked '
        'by the reference evaluator; spline/callable fields; parameters); a case is one (form, problem); distinct by descriptor; non-trivial if the assembled '
        'operator was compared entrywise with the reference and the reference is not identically zero')
MIN_NONTRIVIAL = {'quick': 60, 'thorough': 900}
REQUIRED_COUNTERS = ['oracle:entries_vs_reference', 'oracle:zero_outside_joint_support', 'oracle:pattern_within_joint_support', 'oracle:multi_entries_vs_reference', 'oracle:after_update_vs_reference', 'stage:compiled', 'stage:assembled',
                     'forms:G0', 'forms:G1', 'measure:volume', 'measure:boundary', 'measure:surface', 'kind:vector', 'kind:two_spaces', 'kind:second_derivatives']
ASSUMPTIONS = ['tolerance per entry: 1e-10 * (sum over nodes of |kernel| |basis functions| + its maximum over the operator); convention errors are O(1) relative',
               'the geometry maps are orientation preserving (det J >= 0.2 on the Gauss grid and the faces, checked by the reference evaluator)']
VARIANTS = {'quick': ['plain'], 'thorough': ['plain', 'asan']}
WORKERS_SAN = 8
TIMEOUT = {'quick': 2400, 'thorough': 14400}

def cases(tier, seed):
    san = os.environ.get('VERIF_VARIANT', 'plain') != 'plain'
    for dim in (1, 2, 3):
        yield {'kind': 'g0', 'dim': dim, 'seed': seed, 'part': 0}
        yield {'kind': 'g0', 'dim': dim, 'seed': seed, 'part': 1}
        yield {'kind': 'g0', 'dim': dim, 'seed': seed, 'part': 2}
    # fixed forms with updatable fields / parameters / non-square component blocks (shared with the configuration check C08)
    for dim in (1, 2, 3):
        yield {'kind': 'fixed', 'dim': dim, 'seed': seed}
    n = {'quick': 48, 'thorough': 700}[tier]
    if san: n = 48
    for i in range(n):
        yield {'kind': 'random', 'seed': seed, 'idx': i}

class _Quiet:
    """Send the C-level stdout/stderr of the build (compiler warnings) to a file; keep it for the failure report."""
    def __enter__(self):
        self.f = tempfile.TemporaryFile(mode='w+b')
        sys.stdout.flush(); sys.stderr.flush()
        self.o1, self.o2 = os.dup(1), os.dup(2)
        os.dup2(self.f.fileno(), 1); os.dup2(self.f.fileno(), 2)
        return self
    def __exit__(self, *a):
        sys.stdout.flush(); sys.stderr.flush()
        os.dup2(self.o1, 1); os.dup2(self.o2, 2); os.close(self.o1); os.close(self.o2)
        self.f.seek(0); self.text = self.f.read().decode('utf8', 'replace'); self.f.close()
        return False

def _where(ex):
    tb = traceback.extract_tb(ex.__traceback__)
    for fr in reversed(tb):
        if '/pyiga/' in fr.filename: return '%s:%s' % (os.path.basename(fr.filename), fr.name)
    return tb[-1].name if tb else ''

def _sig(desc):
    return {'grammar': desc.get('grammar', 'G1'), 'dim': desc['dim'], 'arity': desc['arity'],
            'measure': 'boundary' if desc.get('boundary') else ('surface' if desc['geo_dim'] != desc['dim'] else 'volume'),
            'vector': bool(desc['components'][0] or (desc['arity'] == 2 and desc['components'][1]))}

def _dense(A):
    return A.toarray() if hasattr(A, 'toarray') else np.asarray(A)

def check_form(rec, case, desc, rng, nproblems=2):
    from forms import build, refasm, sem, jets
    from pyiga import compile as C, assemble
    sig = _sig(desc); g0 = desc.get('grammar') == 'G0'
    c0 = dict(case, form=desc)
    rec.count('forms:' + ('G0' if g0 else 'G1'))
    # ---- construction and code generation (explicit rejections allowed for G1)
    try:
        vf = build.make_vform(desc)
    except build.Rejected as ex:
        if g0: rec.violation(dict(sig, oracle='a form from the guide is accepted', stage='construction', exc=type(ex.exc).__name__), c0, {'msg': str(ex.exc)[:300]})
        else: rec.count('rejected_at_construction:' + type(ex.exc).__name__)
        rec.case(c0, nontrivial=False); return
    try:
        with _Quiet():
            C.generate(build.make_vform(desc))
    except Exception as ex:
        if g0: rec.violation(dict(sig, oracle='a form from the guide is accepted', stage='generate', exc=type(ex).__name__), c0, {'msg': str(ex)[:300], 'where': _where(ex)})
        else: rec.count('rejected_in_generate:%s:%s' % (type(ex).__name__, _where(ex)))
        rec.case(c0, nontrivial=False); return
    # ---- build + import
    q = _Quiet()
    try:
        with q:
            asmcls = C.compile_vform(vf)
    except Exception as ex:
        rec.violation(dict(sig, oracle='accepted form builds and loads', stage='build/import', exc=type(ex).__name__), c0,
                      {'msg': str(ex)[:400], 'where': _where(ex), 'build_output_tail': q.text[-600:]})
        rec.case(c0, nontrivial=False); return
    rec.count('stage:compiled')
    rec.count('measure:' + sig['measure'])
    if sig['vector']: rec.count('kind:vector')
    if desc['arity'] == 2 and desc['spaces'] == [0, 1]: rec.count('kind:two_spaces')
    for pi in range(nproblems):
        for _ in range(50):
            problem = refasm.random_problem(rng, desc)
            if refasm.geometry_ok(desc, problem): break
        else:
            rec.count('no_admissible_geometry'); continue
        c = dict(c0, problem=problem)
        try:
            R = refasm.reference(desc, problem)
        except (sem.Unsupported, jets.JetOrderError) as ex:
            rec.count('reference_unsupported:' + str(ex)[:40]); rec.case(c, nontrivial=False); continue
        if not (np.all(np.isfinite(R['A'])) and np.all(np.isfinite(R['Aabs']))):
            rec.count('reference_not_finite'); rec.case(c, nontrivial=False); continue       # integrand outside the domain of a function: nothing to compare
        if R['second']: rec.count('kind:second_derivatives')
        kv, args, bd = refasm.to_pyiga_inputs(problem, desc)
        try:
            # through the VForm, as assemble() does (the number of spaces is taken from the form; the class comes from the in-process cache)
            asm = assemble.instantiate_assembler(build.make_vform(desc), kv, dict(args), None, bd)
        except Exception as ex:
            rec.violation(dict(sig, oracle='accepted form instantiates', stage='instantiate', exc=type(ex).__name__), c, {'msg': str(ex)[:400], 'where': _where(ex)})
            rec.case(c, nontrivial=False); continue
        try:
            Asp = assemble.assemble_entries(asm)
            A = _dense(Asp)
        except Exception as ex:
            rec.violation(dict(sig, oracle='accepted form assembles', stage='assemble', exc=type(ex).__name__), c, {'msg': str(ex)[:400], 'where': _where(ex)})
            rec.case(c, nontrivial=False); continue
        rec.count('stage:assembled')
        ref = R['A']
        A = A.reshape(ref.shape) if A.size == ref.size else A
        if A.shape != ref.shape:
            rec.violation(dict(sig, oracle='shape of the assembled operator'), c, {'got': list(A.shape), 'expected': list(ref.shape)}); rec.case(c, nontrivial=False); continue
        tol = 1e-10 * (R['Aabs'] + (R['Aabs'].max() if R['Aabs'].size else 0.0)) + 1e-300
        err = np.abs(A - ref)
        with np.errstate(all='ignore'):
            ratio = np.where(np.isfinite(err), err, np.inf) / tol
        k = int(np.argmax(ratio)); worst = float(ratio.reshape(-1)[k])
        rec.count('oracle:entries_vs_reference', int(A.size)); rec.ratio('entries_vs_reference', worst, 1.0)
        if not worst <= 1.0:
            idx = np.unravel_index(k, A.shape)
            rec.violation(dict(sig, oracle='entry equals the Gauss-Legendre sum of the denoted integrand', second_derivatives=R['second'], two_spaces=desc['spaces'] == [0, 1],
                               nurbs='weights' in problem['geo']), c,
                          {'index': [int(i) for i in idx], 'got': float(A[idx]), 'expected': float(ref[idx]), 'tol': float(tol[idx]), 'nqp_reference': R['nqp'],
                           'entries_off': int(np.sum(ratio > 1.0)), 'entries': int(A.size)})
            rec.case(c, nontrivial=True); continue
        if desc['arity'] == 2:
            out = ~R['mask']
            rec.count('oracle:zero_outside_joint_support', int(np.sum(out)))
            stored_outside = 0
            if hasattr(Asp, 'tocoo') and Asp.shape == R['mask'].shape:
                coo = Asp.tocoo(); stored_outside = int(np.sum(out[coo.row, coo.col])); rec.count('oracle:pattern_within_joint_support', int(coo.nnz))
            if np.any(A[out] != 0.0) or stored_outside:
                rec.violation(dict(sig, oracle='entries of pairs without common support are exactly zero and not stored'), c,
                              {'nonzero_outside': int(np.sum(A[out] != 0.0)), 'stored_outside': stored_outside})
                rec.case(c, nontrivial=True); continue
            # single entries / index subsets, including pairs with disjoint supports
            if not sig['vector']:
                nr, nc = ref.shape
                I = rng.integers(0, nr, size=24); Jx = rng.integers(0, nc, size=24)
                try:
                    E = np.asarray(asm.multi_entries(np.column_stack([I, Jx]).astype(np.uintp)))
                    e1 = float(asm.entry(int(I[0]), int(Jx[0])))
                except Exception as ex:
                    rec.violation(dict(sig, oracle='accepted form assembles', stage='multi_entries', exc=type(ex).__name__), c, {'msg': str(ex)[:300]}); rec.case(c, nontrivial=True); continue
                rr = np.abs(E - ref[I, Jx]) / tol[I, Jx]
                rec.count('oracle:multi_entries_vs_reference', len(I)); rec.ratio('multi_entries_vs_reference', float(rr.max()), 1.0)
                if not float(rr.max()) <= 1.0 or not abs(e1 - ref[I[0], Jx[0]]) <= tol[I[0], Jx[0]]:
                    w = int(np.argmax(rr))
                    rec.violation(dict(sig, oracle='multi_entries/entry equal the reference'), c, {'pair': [int(I[w]), int(Jx[w])], 'got': float(E[w]), 'expected': float(ref[I[w], Jx[w]]), 'entry_0': e1})
                    rec.case(c, nontrivial=True); continue
                dis = ~R['mask'][I, Jx]
                if np.any(E[dis] != 0.0):
                    rec.violation(dict(sig, oracle='entries of pairs without common support are exactly zero', route='multi_entries'), c, {'values': E[dis].tolist()[:5]})
                    rec.case(c, nontrivial=True); continue
        # ---- update() of updatable input fields: the assembler then computes the integrand for the new data
        upd = [n for n, f in desc['fields'].items() if f.get('updatable')]
        if upd and hasattr(asm, 'update'):
            problem2 = json.loads(json.dumps(problem))
            fresh = refasm.random_problem(rng, desc)
            for n_ in upd: problem2['fields'][n_] = fresh['fields'][n_]
            _, args2, _ = refasm.to_pyiga_inputs(problem2, desc)
            c2 = dict(c0, problem=problem2, updated=upd, constructed_with=problem['fields'])
            try:
                asm.update(**{n_: args2[n_] for n_ in upd})
                A2 = _dense(assemble.assemble_entries(asm))
            except Exception as ex:
                rec.violation(dict(sig, oracle='update() of an updatable field works', stage='update', exc=type(ex).__name__), c2, {'msg': str(ex)[:300], 'where': _where(ex)})
                rec.case(c, nontrivial=True); continue
            R2 = refasm.reference(desc, problem2)
            if not (np.all(np.isfinite(R2['A'])) and np.all(np.isfinite(R2['Aabs']))):
                rec.count('reference_not_finite'); rec.case(c, nontrivial=True); continue
            A2 = A2.reshape(R2['A'].shape)
            tol2 = 1e-10 * (R2['Aabs'] + (R2['Aabs'].max() if R2['Aabs'].size else 0.0)) + 1e-300
            with np.errstate(all='ignore'):
                w2 = float(np.max(np.where(np.isfinite(A2), np.abs(A2 - R2['A']), np.inf) / tol2))
            rec.count('oracle:after_update_vs_reference'); rec.ratio('after_update_vs_reference', w2, 1.0)
            if not w2 <= 1.0:
                # mechanism: are quantities derived from an updated field precomputed once at construction time?
                from forms import canon
                try: derived = canon.precomputed_from(C.generate(build.make_vform(desc)), upd)
                except Exception: derived = None
                sig = dict(sig, updated_field_feeds_precomputed_quantities=bool(derived))
                k2 = int(np.argmax(np.abs(A2 - R2['A']) / tol2)); i2 = np.unravel_index(k2, A2.shape)
                rec.violation(dict(sig, oracle='after update() the entries are those of the new input data'), c2,
                              {'index': [int(i) for i in i2], 'got': float(A2[i2]), 'expected': float(R2['A'][i2]), 'value_before_update': float(A.reshape(R2['A'].shape)[i2])})
                rec.case(c, nontrivial=True); continue
        rec.case(c, nontrivial=bool(np.any(ref != 0.0)), key={'form': desc, 'problem': problem})

def run_case(rec, case):
    from forms import gen
    from verif.gen import rng_for
    if case['kind'] == 'g0':
        forms = gen.g0_forms(case['dim'])
        rng = rng_for('C01g', case['seed'], case['dim'], case['part'])
        for k, d in enumerate(forms):
            if k % 3 == case['part']:
                check_form(rec, dict(case, name=d['name']), d, rng, nproblems=2)
    elif case['kind'] == 'fixed':
        import importlib
        c08 = importlib.import_module('c08') if 'c08' in sys.modules else importlib.import_module('checks.c08')
        rng = rng_for('C01f', case['seed'], case['dim'])
        for d in c08.forms(case['dim']):
            d = dict(d, grammar='G1'); d.pop('symmetric_form', None)
            check_form(rec, dict(case, name=d['name']), d, rng, nproblems=1)
    else:
        rng = rng_for('C01r', case['seed'], case['idx'])
        desc = gen.random_form(rng, depth=int(rng.integers(2, 5)))
        check_form(rec, case, desc, rng, nproblems=2)
