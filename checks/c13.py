"""C13 — form-compilation caching never substitutes a different assembler.

Monitors:
  * key soundness on pairs: for a form and every one-token neighbour of it (operator, function name, constant, index, derivative,
    physical/parametric, measure, boundary flag, space index, component count, updatable flag, input vs parameter, field name)
    `vf.hash()` is taken on one copy and `compile.generate()` text on a second, identical copy; equal key with different
    generated code (both on_demand modes) is the refutation.  A byte difference that is only a different order of the same
    statements is not reported (decided by a sorted-line normal form).
  * histories: `compile.compile_cython_module` (a module global looked up by `compile_vform`) is replaced by a recorder that
    returns a stub module carrying the source, so long request sequences run through the real in-process cache of the worker
    process (which also holds the pre-seeded shipped assemblers); every response must carry the code generated for the request.
  * freshness: scripts/generate-assemblers.py is run (in a scratch directory, against the staged package) under several
    PYTHONHASHSEEDs and its output compared with the shipped assemblers.pyx / genericasm.pxi.
  * module naming: the same sources are mapped to module names in separate processes under different hash seeds; the name must
    be a function of the source and distinct sources must get distinct names.
  * a few request sequences run with the real compiler; the assembled functionals are compared with their quadrature value.
"""
import os, sys, json, re, subprocess, tempfile, shutil, hashlib, copy
import numpy as np

PROPERTY = 'C13'
LEVEL = 'exploration'
RULE = ('pairs (form, one-token neighbour) over random forms of the C01/C06 generator, the guide\'s forms and the predefined forms, both on_demand modes; '
        'request histories (random order with repeats, on_demand both ways, interleaved with the pre-seeded forms) through the real compile_vform with '
        'a recording stub for the module compiler, one growing history per worker process; generator script under PYTHONHASHSEED 0-3 and random; '
        'a case is one base form with all its neighbours / one history / one freshness run; non-trivial if at least one pair or request was decided')
MIN_NONTRIVIAL = {'quick': 250, 'thorough': 6000}
REQUIRED_COUNTERS = ['pairs:decided', 'pairs:key_differs', 'history:requests', 'history:cache_hits', 'history:preseeded_hits', 'freshness:classes_compared',
                     'freshness:generic_compared', 'modname:sources', 'real_compile:requests', 'hook:compile_cython_module', 'multi:classes']
ASSUMPTIONS = ['when two texts under one cache key have different normal forms, "identical code" is decided by executing both finalized programs in the tree interpreter under 4 random environments (the generator may factor one form differently from run to run)',
               '"identical code" is first decided on the generated Cython text: byte equality, else equality of a normal form (storage slots named by their variables, temporaries renamed to a '
               'digest of their definitions, lines sorted, temporaries assigned before use): the generator numbers temporaries in an identity-hash dependent order, so two generations of one form differ by such a renaming',
               'neighbours the compiler rejects or cannot generate code for are skipped (counted)']
TIMEOUT = {'quick': 1500, 'thorough': 7200}

def cases(tier, seed):
    for hs in ('0', '1', '2', '3', 'random'):
        yield {'kind': 'freshness', 'hashseed': hs}
    yield {'kind': 'modname', 'seed': seed}
    for i in range({'quick': 3, 'thorough': 24}[tier]):
        yield {'kind': 'real', 'seed': seed, 'idx': i}
    yield {'kind': 'pairs_predefined', 'seed': seed}
    for dim in (1, 2, 3):
        yield {'kind': 'pairs_g0', 'dim': dim, 'seed': seed}
    for i in range({'quick': 300, 'thorough': 8000}[tier]):
        yield {'kind': 'pairs', 'seed': seed, 'idx': i}
    for i in range({'quick': 64, 'thorough': 1200}[tier]):
        yield {'kind': 'history', 'seed': seed, 'idx': i}
    for i in range({'quick': 6, 'thorough': 80}[tier]):
        yield {'kind': 'multi', 'seed': seed, 'idx': i}

# ---- text normal form -------------------------------------------------------------------------------------
def same_code(a, b):
    from forms import canon
    return canon.same_code(a, b)

def _first_diff(a, b):
    from forms import canon
    return canon.first_difference(a, b)

# ---- semantic comparison of two finalized forms ----------------------------------------------------------------
def semantic_equal(vfa, vfb, seed=12345, K=4):
    """True / False / None (not decidable by the interpreter).  The code generator may factor the same form into different
    temporaries from one generation to the next (its common-subexpression pass iterates over identity-hashed sets), so two
    generations of one form need not have equal normal forms; they compute the same values, which is what is decided here by
    executing both finalized programs under the same K random environments."""
    from forms import treeinterp, sem, jets
    try:
        ea = treeinterp.TreeEnv(vfa, np.random.default_rng(seed), K=K); eb = treeinterp.TreeEnv(vfb, np.random.default_rng(seed), K=K)
        va = treeinterp.run_program(vfa, ea); vb = treeinterp.run_program(vfb, eb)
    except (treeinterp.Unknown, sem.Unsupported, jets.JetOrderError, treeinterp.ReadBeforeWrite, KeyError, IndexError):
        return None
    def flat(v):
        if isinstance(v, list):
            out = []
            for x in v: out += flat(x)
            return out
        return [np.asarray(v, dtype=float)]
    fa, fb = flat(va), flat(vb)
    if len(fa) != len(fb): return False
    for x, y in zip(fa, fb):
        if x.shape != y.shape: return False
        with np.errstate(all='ignore'):
            if not np.all(np.abs(x - y) <= 1e-9 * (np.maximum(np.abs(x), np.abs(y)) + 1.0)): return False
    return True

def _finalized(desc, on_demand):
    from forms import build
    from pyiga import compile as C
    vf = build.make_vform(desc); txt = C.generate(vf, on_demand=on_demand)
    return vf, txt

# ---- form helpers -----------------------------------------------------------------------------------------
def _key_and_text(desc, on_demand):
    """(hash of a fresh copy, generated text of another fresh copy) or raises."""
    from forms import build
    from pyiga import compile as C
    h = build.make_vform(desc).hash()
    txt = C.generate(build.make_vform(desc), on_demand=on_demand)
    return h, txt

def _sig_of(desc):
    return {'dim': desc['dim'], 'arity': desc['arity'], 'measure': 'boundary' if desc.get('boundary') else ('surface' if desc['geo_dim'] != desc['dim'] else 'volume')}

def _pairs(rec, case, base, rng, limit):
    from forms import gen, build
    ods = (False, True) if base['arity'] == 2 else (False,)
    try:
        kt = {od: _key_and_text(base, od) for od in ods}
    except Exception as ex:
        rec.count('pairs:base_not_generated:' + type(ex).__name__); return 0
    decided = 0
    for kind, d2 in gen.mutations(base, rng, limit=limit):
        for od in ods:
            try:
                h2, t2 = _key_and_text(d2, od)
            except Exception as ex:
                rec.count('pairs:neighbour_rejected'); break
            h1, t1 = kt[od]
            decided += 1; rec.count('pairs:decided'); rec.count('pairs:token:' + kind)
            if h1 != h2:
                rec.count('pairs:key_differs'); continue
            rec.count('pairs:key_equal')
            s = same_code(t1, t2)
            if s is None:
                # different text under one key: a different factorisation of the same program, or really another program?
                try: sem_eq = semantic_equal(_finalized(base, od)[0], _finalized(d2, od)[0])
                except Exception: sem_eq = None
                if sem_eq: s = 'equivalent'
                elif sem_eq is None: rec.count('pairs:key_equal_undecided'); continue
            if s is None:
                rec.violation(dict(_sig_of(base), oracle='forms sharing a cache key generate identical code', token=kind, on_demand=od),
                              dict(case, base=base, neighbour=d2), {'first_difference': _first_diff(t1, t2), 'key': str(h1)})
            else:
                rec.count('pairs:key_equal_same_code_' + s)
    return decided

_PRE = None
def _predefined():
    from pyiga import vform as V
    out = []
    for dim in (1, 2, 3):
        out += [('mass_vf', dim, lambda d=dim: V.mass_vf(d)), ('stiffness_vf', dim, lambda d=dim: V.stiffness_vf(d)),
                ('L2functional_vf', dim, lambda d=dim: V.L2functional_vf(d)), ('L2functional_phys', dim, lambda d=dim: V.L2functional_vf(d, physical=True))]
        if dim >= 2:
            out += [('divdiv_vf', dim, lambda d=dim: V.divdiv_vf(d)), ('heat_st_vf', dim, lambda d=dim: V.heat_st_vf(d)), ('wave_st_vf', dim, lambda d=dim: V.wave_st_vf(d))]
    return out

# ---- shipped classes ------------------------------------------------------------------------------------------
_SHIPPED = {}
def _shipped_class_text(name):
    """Text of one class of the shipped assemblers.pyx."""
    import pyiga
    if not _SHIPPED:
        src = open(os.path.join(os.path.dirname(pyiga.__file__), 'assemblers.pyx')).read()
        _SHIPPED.update(_split_classes(src))
    return _SHIPPED.get(name)

def _split_classes(src):
    out = {}; cur = None; buf = []
    for line in src.splitlines():
        m = re.match(r'cdef class (\w+)\(', line)
        if m:
            if cur: out[cur] = '\n'.join(buf)
            cur = m.group(1); buf = []
        if cur is not None: buf.append(line)
    if cur: out[cur] = '\n'.join(buf)
    # module-level comment lines between two classes (the parameter table printed ahead of the next class) belong to neither
    for k, v in out.items():
        ls = v.split('\n')
        while ls and (not ls[-1].strip() or ls[-1].startswith('#')): ls.pop()
        out[k] = '\n'.join(ls)
    return out

# ---- histories -------------------------------------------------------------------------------------------------
class _StubModule:
    def __init__(self, src):
        self.source = src
        self.CustomAssembler = type('CustomAssembler', (), {'source': src})

_POOL = {'forms': None}
def _history(rec, case):
    from forms import gen, build
    from verif.gen import rng_for
    from pyiga import compile as C, assemblers
    rng = rng_for('C13h', case['seed'], case['idx'])
    # request pool of this history: a base form, some of its neighbours, a predefined form and one of its neighbours-by-dimension
    base = gen.random_form(rng, depth=int(rng.integers(1, 4)))
    reqs = [('desc', base)] + [('desc', d) for _, d in gen.mutations(base, rng, limit=5)]
    pre = _predefined()
    for _ in range(2):
        reqs.append(('pre', pre[int(rng.integers(0, len(pre)))]))
    g0 = gen.g0_forms(int(rng.integers(1, 4)))
    reqs.append(('desc', g0[int(rng.integers(0, len(g0)))]))
    orig = C.compile_cython_module; orig_gen = C.generate
    src2vf = _POOL.setdefault('src2vf', {})
    def stub(src, verbose=False):
        rec.count('hook:compile_cython_module')
        return _StubModule(src)
    def gen_rec(vf, *a, **k):
        src = orig_gen(vf, *a, **k); src2vf[src] = vf      # the (now finalized) form object a source was generated from
        return src
    C.compile_cython_module = stub; C.generate = gen_rec
    n = 0
    try:
        order = [int(i) for i in rng.integers(0, len(reqs), size=int(rng.integers(8, 20)))]
        for i in order:
            kind, r = reqs[i]
            od = bool(rng.integers(0, 2))
            try:
                if kind == 'desc':
                    vf = build.make_vform(r); ref = build.make_vform(r)
                    if vf.arity != 2: od = False
                else:
                    vf = r[2](); ref = r[2]()
                    if vf.arity != 2: od = False
                expected = orig_gen(ref, on_demand=od)
            except Exception:
                rec.count('history:request_not_generated'); continue
            before = rec.counters.get('hook:compile_cython_module', 0)
            asm = C.compile_vform(vf, on_demand=od)
            hit = rec.counters.get('hook:compile_cython_module', 0) == before
            n += 1; rec.count('history:requests'); rec.count('history:cache_hits' if hit else 'history:cache_misses')
            src = getattr(asm, 'source', None)
            sig = {'oracle': 'response implements the requested form', 'request': kind, 'on_demand': od, 'cache_hit': hit}
            if src is not None:
                if same_code(src, expected) is None:
                    vfr = src2vf.get(src)
                    sem_eq = semantic_equal(vfr, ref) if vfr is not None else None
                    if sem_eq: rec.count('history:equivalent_code')
                    elif sem_eq is None: rec.count('history:undecided')
                    else: rec.violation(sig, dict(case, request_index=i), {'first_difference': _first_diff(expected, src), 'request': r if kind == 'desc' else [r[0], r[1]]})
            else:
                # a shipped (pre-seeded) assembler class: must be the class generated for this very form
                rec.count('history:preseeded_hits')
                name = asm.__name__
                shipped = _shipped_class_text(name)
                exp_cls = _split_classes(expected).get('CustomAssembler', '').replace('CustomAssembler', name)
                if shipped is None or same_code(shipped.strip(), exp_cls.strip()) is None:
                    rec.violation(dict(sig, oracle='a pre-seeded assembler is returned only for its own form', shipped=name), dict(case, request_index=i),
                                  {'request': r if kind == 'desc' else [r[0], r[1]], 'first_difference': _first_diff(exp_cls.strip(), (shipped or '').strip())})
    finally:
        C.compile_cython_module = orig; C.generate = orig_gen
    return n

# ---- freshness ----------------------------------------------------------------------------------------------------
def _freshness(rec, case):
    import pyiga
    stage = os.path.dirname(os.path.dirname(os.path.abspath(pyiga.__file__)))
    script = os.path.join(stage, 'scripts', 'generate-assemblers.py')
    tmp = tempfile.mkdtemp(prefix='c13fresh-', dir=os.environ.get('VERIF_SCRATCH_RUN') or None)
    try:
        os.makedirs(os.path.join(tmp, 'scripts')); os.makedirs(os.path.join(tmp, 'pyiga'))
        shutil.copy(script, os.path.join(tmp, 'scripts', 'generate-assemblers.py'))
        env = dict(os.environ); env['PYTHONHASHSEED'] = case['hashseed']; env['PYTHONPATH'] = stage + os.pathsep + env.get('PYTHONPATH', '')
        p = subprocess.run([sys.executable, os.path.join(tmp, 'scripts', 'generate-assemblers.py'), '--generic'], env=env, capture_output=True, text=True, timeout=900)
        if p.returncode != 0:
            rec.violation({'oracle': 'generator script runs', 'hashseed_class': 'fixed' if case['hashseed'] != 'random' else 'random'}, case, {'stderr': p.stderr[-600:]}); return 0
        n = 0
        new = open(os.path.join(tmp, 'pyiga', 'assemblers.pyx')).read(); old = open(os.path.join(stage, 'pyiga', 'assemblers.pyx')).read()
        cn, co = _split_classes(new), _split_classes(old)
        pre_n, pre_o = new.split('cdef class', 1)[0], old.split('cdef class', 1)[0]
        if same_code(pre_n, pre_o) is None:
            rec.violation({'oracle': 'shipped assemblers equal the generator output', 'part': 'preamble'}, case, {'first_difference': _first_diff(pre_n, pre_o)})
        for name in sorted(set(cn) | set(co)):
            n += 1; rec.count('freshness:classes_compared')
            if name not in cn or name not in co:
                rec.violation({'oracle': 'shipped assemblers equal the generator output', 'part': 'class set'}, case, {'class': name, 'generated': name in cn, 'shipped': name in co}); continue
            s = same_code(cn[name].strip(), co[name].strip())
            if s is None:
                rec.violation({'oracle': 'shipped assemblers equal the generator output', 'part': 'class', 'class': name}, case, {'first_difference': _first_diff(cn[name], co[name])})
            else: rec.count('freshness:class_' + s)
        newg = open(os.path.join(tmp, 'pyiga', 'genericasm.pxi')).read(); oldg = open(os.path.join(stage, 'pyiga', 'genericasm.pxi')).read()
        rec.count('freshness:generic_compared'); n += 1
        ng = [' '.join(l.split()) for l in newg.splitlines() if l.strip()]; og = [' '.join(l.split()) for l in oldg.splitlines() if l.strip()]
        if ng != og:
            rec.violation({'oracle': 'shipped generic infrastructure equals the generator output', 'part': 'genericasm.pxi'}, case, {'first_difference': _first_diff('\n'.join(ng), '\n'.join(og))})
        return n
    finally:
        shutil.rmtree(tmp, ignore_errors=True)

# ---- module names ---------------------------------------------------------------------------------------------------
_MODNAME_CHILD = r'''
import sys, json, importlib
from pyiga import compile as C
srcs = json.load(open(sys.argv[1]))
names = []
C.importlib = type(sys)('importlib_stub')
def imp(name): names.append(name); raise ImportError(name)
C.importlib.import_module = imp
C.importlib.invalidate_caches = importlib.invalidate_caches
C._compile_cython_module_nocache = lambda src, modname, verbose=False: ('built', modname)
out = []
for s in srcs:
    del names[:]
    r = C.compile_cython_module(s)
    out.append([names[0] if names else None, r[1]])
json.dump(out, open(sys.argv[2], 'w'))
'''
def _modname(rec, case):
    from forms import gen, build
    from verif.gen import rng_for
    from pyiga import compile as C
    rng = rng_for('C13n', case['seed'])
    srcs = []
    while len(srcs) < 24:
        d = gen.random_form(rng, depth=2)
        try: srcs.append(C.generate(build.make_vform(d)))
        except Exception: continue
    srcs += [srcs[0] + '\n', srcs[0] + ' ', srcs[1].replace('0', '1', 1), '', 'x']
    tmp = tempfile.mkdtemp(prefix='c13mod-', dir=os.environ.get('VERIF_SCRATCH_RUN') or None)
    try:
        json.dump(srcs, open(os.path.join(tmp, 'srcs.json'), 'w'))
        open(os.path.join(tmp, 'child.py'), 'w').write(_MODNAME_CHILD)
        res = {}
        for hs in ('0', '1', '17', 'random'):
            env = dict(os.environ); env['PYTHONHASHSEED'] = hs; env['XDG_CACHE_HOME'] = os.path.join(tmp, 'xdg' + hs)
            p = subprocess.run([sys.executable, os.path.join(tmp, 'child.py'), os.path.join(tmp, 'srcs.json'), os.path.join(tmp, 'out%s.json' % hs)], env=env, capture_output=True, text=True, timeout=600)
            if p.returncode != 0:
                rec.error('modname child failed: ' + p.stderr[-500:]); return 0
            res[hs] = json.load(open(os.path.join(tmp, 'out%s.json' % hs)))
        ref = res['0']
        for hs, r in res.items():
            for i, (looked, built) in enumerate(r):
                rec.count('modname:sources')
                if looked != built or [looked, built] != ref[i]:
                    rec.violation({'oracle': 'identical source maps to the same module name in every process'}, case, {'hashseed': hs, 'source_index': i, 'names': [looked, built], 'reference': ref[i]})
        names = [r[0] for r in ref]
        distinct_src = len(set(srcs))
        if len(set(names)) != distinct_src:
            rec.violation({'oracle': 'distinct sources map to distinct module names'}, case, {'distinct_sources': distinct_src, 'distinct_names': len(set(names))})
        return len(srcs)
    finally:
        shutil.rmtree(tmp, ignore_errors=True)

# ---- real compiler ---------------------------------------------------------------------------------------------------
_FN = {'abs': np.abs, 'sqrt': np.sqrt, 'exp': np.exp, 'log': np.log, 'sin': np.sin, 'cos': np.cos, 'tan': np.tan}
def _real(rec, case):
    """Request sequences through the real compiler: functionals  int fn(c*x0 + s) v dx  on the unit interval/square whose
    requests differ in one token; the sum of the assembled vector is the integral (partition of unity)."""
    from verif.gen import rng_for
    from pyiga import compile as C, bspline, geometry, assemble, vform as V
    rng = rng_for('C13r', case['seed'], case['idx'])
    dim = int(rng.integers(1, 3))
    fns = list(rng.permutation(['abs', 'sqrt', 'exp', 'log', 'sin', 'cos']))[:2]
    c1 = float(rng.choice([-1.0, -2.0, 2.0, 1.0])); c2 = {-1.0: -2.0, -2.0: -1.0, 2.0: 1.0, 1.0: 2.0}[c1]
    variants = [(fns[0], c1, 3.5), (fns[1], c1, 3.5), (fns[0], c2, 3.5), (fns[0], c1, 4.5)]
    kvs = tuple(bspline.make_knots(2, 0.0, 1.0, 3) for _ in range(dim))
    geo = geometry.unit_square() if dim == 2 else geometry.line_segment(0.0, 1.0)
    order = [int(i) for i in rng.integers(0, len(variants), size=7)]
    n = 0
    from numpy.polynomial.legendre import leggauss
    xg, wg = leggauss(40); xg = (xg + 1) / 2; wg = wg / 2
    for i in order:
        fn, c, s = variants[i]
        vf = V.VForm(dim, arity=1)
        v = vf.basisfuns()
        x0 = vf.Geo[0]
        f = (abs(c * x0 + s) if fn == 'abs' else getattr(V, fn)(c * x0 + s))
        vf.add(f * v * V.dx)
        asm = C.compile_vform(vf)
        vec = assemble.assemble(asm, kvs, geo=geo)
        val = float(np.sum(vec))
        ref = float(np.sum(wg * _FN[fn](c * xg + s)))
        n += 1; rec.count('real_compile:requests')
        rec.check_close('real_compiled_functional', abs(val - ref), 1e-6 * max(1.0, abs(ref)), {'oracle_kind': 'request sequence with the real compiler', 'fn': fn}, dict(case, request=[fn, c, s], position=n),
                        {'got': val, 'expected': ref})
    return n

def _multi(rec, case):
    """compile_vforms: every class of the returned tuple implements the form at its position (lists of up to 14 forms)."""
    import types
    from forms import gen, build
    from verif.gen import rng_for
    from pyiga import compile as C
    rng = rng_for('C13m', case['seed'], case['idx'])
    nforms = int(rng.integers(2, 15)) if case['idx'] % 2 else int(rng.integers(11, 15))
    descs = []
    while len(descs) < nforms:
        d = gen.random_form(rng, depth=int(rng.integers(1, 3)))
        try: C.generate(build.make_vform(d))
        except Exception: continue
        descs.append(d)
    orig = C.compile_cython_module
    def stub(src, verbose=False):
        rec.count('hook:compile_cython_module')
        mod = types.ModuleType('stubmod')
        from forms import canon
        for name, text in _split_classes(src).items():
            setattr(mod, name, type(name, (), {'source': text}))
        mod.source = src
        return mod
    C.compile_cython_module = stub
    try:
        classes = C.compile_vforms([build.make_vform(d) for d in descs])
    finally:
        C.compile_cython_module = orig
    sig = {'oracle': 'compile_vforms returns the class of form i at position i', 'more_than_10_forms': nforms > 10}
    if len(classes) != nforms:
        rec.violation(dict(sig, what='length'), case, {'got': len(classes), 'want': nforms}); return 0
    n = 0
    for i, (cls, d) in enumerate(zip(classes, descs)):
        exp = _split_classes(C.generate(build.make_vform(d))).get('CustomAssembler', '')
        got = getattr(cls, 'source', '')
        name = got.split('(')[0].replace('cdef class ', '').strip() if got else ''
        n += 1; rec.count('multi:classes')
        gotx = got.replace(name, 'X_') if name else got
        def matches(dd, tries):
            for _ in range(tries):
                e_ = _split_classes(C.generate(build.make_vform(dd))).get('CustomAssembler', '').replace('CustomAssembler', 'X_')
                if same_code(e_, gotx) is not None: return True
            return False
        if same_code(exp.replace('CustomAssembler', 'X_'), gotx) is None and not matches(d, 6):
            # not recognisably the class of form i (the generator may factor a form differently each time): is it another form's class?
            other = [j for j, dj in enumerate(descs) if j != i and dj != d and matches(dj, 2)]
            if other or name != 'CustomAssembler%d' % i:
                rec.violation(sig, dict(case, position=i, nforms=nforms), {'position': i, 'class_returned': name, 'is_the_class_of_form': other[:3]})
                break
            rec.count('multi:undecided')
    return n

def run_case(rec, case):
    from forms import gen
    from verif.gen import rng_for
    kind = case['kind']
    if kind == 'multi':
        n = _multi(rec, case); rec.case(case, nontrivial=bool(n)); return
    if kind == 'freshness': n = _freshness(rec, case)
    elif kind == 'modname': n = _modname(rec, case)
    elif kind == 'real': n = _real(rec, case)
    elif kind == 'history': n = _history(rec, case)
    elif kind == 'pairs':
        rng = rng_for('C13p', case['seed'], case['idx'])
        base = gen.random_form(rng, depth=int(rng.integers(1, 4)))
        n = _pairs(rec, case, base, rng, limit=12)
    elif kind == 'pairs_g0':
        rng = rng_for('C13g', case['seed'], case['dim']); n = 0
        for d in gen.g0_forms(case['dim']): n += _pairs(rec, dict(case, form=d['name']), d, rng, limit=1000)
    else:
        n = _pairs_predefined(rec, case)
    rec.case(case, nontrivial=bool(n))

def _pairs_predefined(rec, case):
    """The predefined forms against each other (all orders), against their other-dimension / other-flag siblings and their own copies."""
    from pyiga import compile as C
    pre = _predefined()
    items = []
    for name, dim, mk in pre:
        try: items.append((name, dim, mk().hash(), C.generate(mk())))
        except Exception as ex: rec.count('pairs:predefined_not_generated')
    n = 0
    for i, a in enumerate(items):
        for b in items[i:]:
            n += 1; rec.count('pairs:decided')
            if a[2] != b[2]: rec.count('pairs:key_differs'); continue
            rec.count('pairs:key_equal')
            if same_code(a[3], b[3]) is None:
                rec.violation({'oracle': 'forms sharing a cache key generate identical code', 'token': 'predefined form', 'dim': a[1]}, dict(case, a=[a[0], a[1]], b=[b[0], b[1]]),
                              {'first_difference': _first_diff(a[3], b[3])})
    return n
