"""C06 — form rewriting and differentiation passes preserve the integrand's value.

Monitors:
  * trace monitor: VForm.transform looks up the module global vform.transform_exprs; it is replaced by a
    recording wrapper, and every rewrite pair (e -> r) of every middle-end pass is evaluated at the
    moment it happens by a tree-walking interpreter under K random real environments;
  * the finalized program is executed in emitted order (precomp, then kernel_deps, then the kernel
    expressions) by a straight-line evaluator whose store raises on read-before-write;
  * the construction-time expansions (det, inv, grad, **, T, ...) and the symbolic differentiation rules
    are checked against a semantic interpreter of the generator's own AST that differentiates by jet
    arithmetic; polynomial operator identities are evaluated exactly (Fractions) on integer grids.
"""
import itertools
import numpy as np
from fractions import Fraction

PROPERTY = 'C06'
LEVEL = 'exploration'
RULE = ('random forms over the documented grammar (dims 1-3, arity 1-2, scalar/vector bases incl. non-square component blocks, two spaces, dx/surface ds/'
        'boundary ds, Dx/grad/div/curl/hess physical and parametric, inner/dot/cross/outer/det/inv/tr/T, + - * / **, abs/sqrt/exp/log/sin/cos/tan, inputs '
        'of shape ()/(d,)/(d,d) physical or parametric, parameters), the guide\'s forms (G0), the predefined forms (incl. space-time) and one-token '
        'mutation neighbours; each under K=6 random environments; exact operator identities on integer grids; a case is one form; distinct by descriptor; '
        'non-trivial if at least one rewrite pair was checked')
MIN_NONTRIVIAL = {'quick': 1800, 'thorough': 25000}
REQUIRED_COUNTERS = ['pairs:dx_or_ds', 'pairs:replace_physical_derivs', 'pairs:insert_input_field_derivs', 'pairs:para_derivs_to_vars', 'pairs:_to_literal_vec_mat',
                     'pairs:fold_constants', 'pairs:cse', 'pairs:replace_trivial_vars', 'oracle:initial_tree_vs_semantics', 'oracle:program_value',
                     'oracle:exact_identity', 'hook:transform_exprs']
ASSUMPTIONS = ['environments are random reals with well-conditioned, orientation-preserving (det J >= 0.3) Jacobians; space-time forms get cylinder Jacobians (their rewriting assumes a cylinder)',
               'tolerance 1e-9 relative to the magnitude of the values compared (random environments are O(1)); 1e-8 for the comparison of the constructed tree with the semantic interpreter (two independent evaluations of one formula; observed worst 9.6e-10 in 220000 forms)']
K = 6

def cases(tier, seed):
    n = {'quick': 2500, 'thorough': 40000}[tier]
    for i in range(n):
        yield {'kind': 'random', 'seed': seed, 'idx': i}
    for dim in (1, 2, 3):
        yield {'kind': 'g0', 'dim': dim, 'seed': seed}
        yield {'kind': 'predefined', 'dim': dim, 'seed': seed}
    for i in range({'quick': 400, 'thorough': 5000}[tier]):
        yield {'kind': 'mutant', 'seed': seed, 'idx': i}
    for i in range({'quick': 60, 'thorough': 600}[tier]):
        yield {'kind': 'identity', 'seed': seed, 'idx': i}
    if tier == 'thorough':
        yield {'kind': 'suite'}      # every form the repository's own tests finalize, monitored on a deep copy

def _classify(fun):
    name = getattr(fun, '__name__', '')
    if name != '<lambda>': return name
    code = fun.__code__
    names = set(code.co_names) | set(code.co_freevars)
    if 'W' in names or 'SW' in names: return 'dx_or_ds'
    if 'fold_constants' in names: return 'fold_constants'
    if 'hashes' in names: return 'cse'
    return 'lambda'

def _flat(v):
    if isinstance(v, list):
        out = []
        for x in v: out += _flat(x)
        return out
    return [np.asarray(v, dtype=float)]

def _cmp_values(a, b):
    """Worst relative deviation between two (nested) values; shapes must agree."""
    fa, fb = _flat(a), _flat(b)
    if len(fa) != len(fb): return np.inf, 0.0
    worst = 0.0; scale = 0.0
    for x, y in zip(fa, fb):
        with np.errstate(all='ignore'):
            s = np.maximum(np.abs(x), np.abs(y))
            e = np.abs(x - y)
        # an environment in which both sides are undefined (sqrt/log outside their domain, 0/0) decides nothing; one side only is a deviation
        both_undefined = ~np.isfinite(x) & ~np.isfinite(y)
        e = np.where(both_undefined, 0.0, np.where(np.isnan(e), np.inf, e)); s = np.where(both_undefined, 0.0, s)
        bad = e / (s + 1.0)
        worst = max(worst, float(np.max(bad))); scale = max(scale, float(np.nanmax(s)) if s.size else 0.0)
    return worst, scale

def check_form(rec, case, vf, desc, rng, sig0):
    """Run the monitors on one VForm (desc may be None for predefined forms)."""
    from pyiga import vform as V
    from forms import treeinterp, sem, jets
    from forms.jets import Jet
    SKIP = (treeinterp.Unknown, sem.Unsupported, jets.JetOrderError)       # outside the oracle's semantics (e.g. derivative of a physical field)
    env = treeinterp.TreeEnv(vf, rng, K=K)
    npairs = [0]
    # ---- initial tree vs the semantic interpreter of the generator's AST (construction-time expansions, Dx rules)
    it0 = treeinterp.Interp(env, follow=True)
    try:
        vals0 = [it0.ev(e) for e in vf.exprs]
    except SKIP as ex:
        # e.g. a physical derivative on a surface (documented as not implemented): outside the oracle's semantics
        rec.count('skipped:' + str(ex)[:40]); return False
    if desc is not None:
        cu = desc['components'][0]; cv = desc['components'][1] if desc['arity'] == 2 else None
        nu = cu or 1; nv = (cv or 1) if desc['arity'] == 2 else 1
        zero = Jet(np.zeros(K), np.zeros((K, env.d)), np.zeros((K, env.d, env.d)), env.d)
        fields = {}
        for name, f in desc['fields'].items():
            shp = tuple(f['shape'])
            if len(shp) == 0: fields[name] = env.field_jet(name, ())
            elif len(shp) == 1: fields[name] = [env.field_jet(name, (a,)) for a in range(shp[0])]
            else: fields[name] = [[env.field_jet(name, (a, b)) for b in range(shp[1])] for a in range(shp[0])]
        for ei, (ast, e) in enumerate(zip(desc['exprs'], vf.exprs)):
            for i in range(nv):
                for j in range(nu):
                    def bfval(name, nc, active):
                        jet = env.bf_jet(name)
                        if nc in (None,): return jet
                        if nc == 1: return jet
                        return [jet if c == active else zero for c in range(nc)]
                    bf = {'u': bfval('u', cu, j)}
                    if desc['arity'] == 2: bf['v'] = bfval('v', cv, i)
                    se = sem.Env(env.d, env.g, env.X, env.sem.gw, bf, fields=fields, params=env.params, boundary=env.boundary)
                    try:
                        sv = sem.evaluate(ast, se).v
                    except SKIP as ex:
                        rec.count('sem_unsupported'); continue
                    tv = vals0[ei]
                    if vf.vec: tv = tv[i * nu + j] if desc['arity'] == 2 else tv[j]
                    w, sc = _cmp_values(sv, tv)
                    rec.count('oracle:initial_tree_vs_semantics')
                    rec.ratio('initial_tree_vs_semantics', w, 1e-8)
                    if not w <= 1e-8:      # two independent evaluations of one formula (jets vs expanded tree): a decade more than the rewrite pairs
                        rec.violation(dict(sig0, oracle='expression tree built by the vform API has the value the form denotes', stage='construction'), case,
                                      {'expr': ei, 'component': [i, j], 'rel_dev': w}); return False
    # ---- rewrite pairs, recorded at the module-global hook
    orig = V.transform_exprs
    state = {'bad': None}
    def rec_transform_exprs(exprs, fun, type=None, deep=False):
        rec.count('hook:transform_exprs')
        pname = _classify(fun)
        def fun2(e):
            r = fun(e)
            if r is not None and r is not e and state['bad'] is None:
                try:
                    a = it0.ev(e); b = it0.ev(r)       # one memo for the whole finalize: a node's value is computed once (entries hold the node, so ids are never reused)
                except SKIP:
                    rec.count('pair_skipped'); return r
                rec.count('pairs:' + pname); npairs[0] += 1
                w, sc = _cmp_values(a, b)
                rec.ratio('rewrite_pair', w, 1e-9)
                if not w <= 1e-9:
                    state['bad'] = {'pass': pname, 'old': str(e)[:200], 'new': str(r)[:200], 'old_type': e.__class__.__name__, 'rel_dev': w}
            return r
        return orig(exprs, fun2, type=type, deep=deep)
    V.transform_exprs = rec_transform_exprs
    try:
        try:
            vf.finalize(do_precompute=bool(rng.integers(0, 2)))
        except Exception as ex:
            import traceback
            tb = traceback.extract_tb(ex.__traceback__)
            if desc is not None and sig0.get('kind') == 'mutant':
                rec.count('mutant_rejected_in_finalize:' + type(ex).__name__); return False    # one-token mutants need not be well-formed (e.g. division by a basis function)
            if isinstance(ex, (TypeError, NotImplementedError)) and desc is not None and desc.get('grammar') == 'G1':
                rec.count('rejected_in_finalize:' + type(ex).__name__); return False      # explicit rejection of an unsupported combination
            rec.violation(dict(sig0, oracle='finalize() raises', exc=type(ex).__name__), case, {'msg': str(ex)[:300], 'where': tb[-1].name if tb else ''}); return False
    finally:
        V.transform_exprs = orig
    if state['bad'] is not None:
        b = state['bad']
        rec.violation(dict(sig0, oracle='rewrite step preserves the value', **{'pass': b['pass'], 'node': b['old_type']}), case, b); return False
    # ---- the finalized program, executed in emitted order with read-before-write detection
    try:
        vals1 = treeinterp.run_program(vf, env)
    except treeinterp.ReadBeforeWrite as ex:
        rec.violation(dict(sig0, oracle='every variable is defined before it is used in the emitted order'), case, {'variable': str(ex)}); return False
    except SKIP as ex:
        rec.count('skipped_program:' + str(ex)[:40]); return True
    rec.count('oracle:program_value')
    w, sc = _cmp_values(vals0, vals1)
    rec.ratio('program_value', w, 1e-9)
    if not w <= 1e-9:
        rec.violation(dict(sig0, oracle='finalized program computes the value of the original integrand'), case, {'rel_dev': w}); return False
    return npairs[0] > 0

_state = {}

def suite_setup(rec):
    """Monitor for the repository's own test suite: every VForm about to be finalized is deep-copied and the copy goes
    through check_form (all rewrite pairs, emitted order, value of the finalized program) before the real finalize runs."""
    import copy
    from pyiga import vform as V
    from verif.gen import rng_for
    orig = V.VForm.finalize
    busy = [False]; n = [0]
    def finalize(self, *a, **kw):
        if not busy[0]:
            busy[0] = True
            try:
                rec.count('hook:finalize')
                try:
                    cp = copy.deepcopy(self)
                except Exception as ex:
                    cp = None; rec.count('suite_form_not_copyable:' + type(ex).__name__)
                if cp is not None:
                    n[0] += 1
                    case = dict(_state.get('case') or {'kind': 'suite'}, form_index=n[0])
                    check_form(rec, case, cp, None, rng_for('C06suite', 0, n[0]), {'kind': 'suite'})
                    rec.count('suite_forms_monitored')
            finally:
                busy[0] = False
        return orig(self, *a, **kw)
    V.VForm.finalize = finalize

def run_case(rec, case):
    if case['kind'] == 'suite':
        from verif.suite import run_suite
        rec.case(case, nontrivial=True); run_suite(rec, 'c06', case); return
    from forms import gen, build
    from verif.gen import rng_for
    from pyiga import vform as V
    kind = case['kind']
    if kind == 'identity':
        return _identity(rec, case)
    if kind == 'random':
        rng = rng_for('C06', case['seed'], case['idx'])
        desc = gen.random_form(rng, depth=int(rng.integers(2, 5)))
        descs = [('random', desc)]
    elif kind == 'mutant':
        rng = rng_for('C06m', case['seed'], case['idx'])
        base = gen.random_form(rng, depth=3)
        muts = gen.mutations(base, rng, limit=3)
        descs = [('mutant:' + k, d) for k, d in muts]
    elif kind == 'g0':
        rng = rng_for('C06g', case['seed'], case['dim'])
        descs = [('g0:' + d['name'], d) for d in gen.g0_forms(case['dim'])]
    else:
        rng = rng_for('C06p', case['seed'], case['dim'])
        dim = case['dim']; descs = []
        pre = [('mass_vf', V.mass_vf), ('stiffness_vf', V.stiffness_vf), ('L2functional_vf', V.L2functional_vf),
               ('L2functional_phys', lambda d: V.L2functional_vf(d, physical=True))]
        if dim >= 2: pre += [('divdiv_vf', V.divdiv_vf), ('heat_st_vf', V.heat_st_vf), ('wave_st_vf', V.wave_st_vf)]
        for name, fn in pre:
            vf = fn(dim)
            c = dict(case, form=name)
            nt = check_form(rec, c, vf, None, rng, {'kind': 'predefined', 'form': name})
            rec.case(c, nontrivial=bool(nt))
        return
    for tag, desc in descs:
        c = dict(case, form=desc, tag=tag)
        sig0 = {'kind': tag.split(':')[0], 'dim': desc['dim'], 'measure': 'boundary' if desc.get('boundary') else ('surface' if desc['geo_dim'] != desc['dim'] else 'volume'),
                'vector': bool(desc['components'][0] or (desc['arity'] == 2 and desc['components'][1]))}
        try:
            vf = build.make_vform(desc)
        except build.Rejected as ex:
            if desc.get('grammar') == 'G0':
                rec.violation(dict(sig0, oracle='a form from the guide is accepted', exc=type(ex.exc).__name__), c, {'msg': str(ex.exc)[:300]})
            else:
                rec.count('rejected_at_construction:' + type(ex.exc).__name__)
            rec.case(c, nontrivial=False); continue
        nt = check_form(rec, c, vf, desc, rng, sig0)
        rec.case(c, nontrivial=bool(nt))

# ---- exact operator identities ------------------------------------------------------------------------
def _exact(e, leaf):
    """Exact (Fraction) evaluation of a pyiga expression tree whose leaves are constants and variable references."""
    from pyiga import vform as V
    t = type(e)
    if e.shape == ():
        if t is V.ConstExpr: return Fraction(e.value)
        if t is V.NegExpr: return -_exact(e.x, leaf)
        if t is V.ScalarOperExpr:
            a, b = _exact(e.x, leaf), _exact(e.y, leaf)
            return {'+': a + b, '-': a - b, '*': a * b, '/': (a / b) if b != 0 else None}[e.oper] if not (e.oper == '/' and b == 0) else _raise()
        if t is V.VarRefExpr:
            if e.var.expr is not None and sum(e.D) == 0:
                v = _exact(e.var.expr, leaf)
                return v if not e.I else (v[e.I[0]] if len(e.I) == 1 else v[e.I[0]][e.I[1]])
            return leaf(e.var.name, tuple(e.I), tuple(e.D), bool(e.parametric))
        raise KeyError(t.__name__)
    if t is V.LiteralVectorExpr: return [_exact(c, leaf) for c in e.children]
    if t is V.LiteralMatrixExpr:
        m, n = e.shape; return [[_exact(e.children[i * n + j], leaf) for j in range(n)] for i in range(m)]
    if t is V.TensorOperExpr:
        a, b = _exact(e.x, leaf), _exact(e.y, leaf)
        f = {'+': lambda x, y: x + y, '-': lambda x, y: x - y, '*': lambda x, y: x * y, '/': lambda x, y: x / y}[e.oper]
        if len(e.shape) == 1: return [f(x, y) for x, y in zip(a, b)]
        return [[f(x, y) for x, y in zip(r1, r2)] for r1, r2 in zip(a, b)]
    if t is V.VectorCrossExpr:
        a, b = _exact(e.x, leaf), _exact(e.y, leaf)
        return [a[1] * b[2] - a[2] * b[1], a[2] * b[0] - a[0] * b[2], a[0] * b[1] - a[1] * b[0]]
    if t is V.OuterProdExpr:
        a, b = _exact(e.x, leaf), _exact(e.y, leaf); return [[x * y for y in b] for x in a]
    if t is V.MatVecExpr:
        A, x = _exact(e.x, leaf), _exact(e.y, leaf); return [sum(A[i][j] * x[j] for j in range(len(x))) for i in range(len(A))]
    if t is V.MatMatExpr:
        A, B = _exact(e.x, leaf), _exact(e.y, leaf)
        return [[sum(A[i][k] * B[k][j] for k in range(len(B))) for j in range(len(B[0]))] for i in range(len(A))]
    raise KeyError(t.__name__)

class _DivZero(Exception): pass
def _raise(): raise _DivZero()

def _det_exact(A):
    n = len(A)
    tot = Fraction(0)
    for perm in itertools.permutations(range(n)):
        sgn = 1
        for i in range(n):
            for j in range(i + 1, n):
                if perm[i] > perm[j]: sgn = -sgn
        pr = Fraction(sgn)
        for i in range(n): pr *= A[i][perm[i]]
        tot += pr
    return tot

def _identity(rec, case):
    from pyiga import vform as V
    from verif.gen import rng_for
    rng = rng_for('C06i', case['seed'], case['idx'])
    which = ['det', 'inv', 'cross', 'matmul', 'tr_T_inner', 'pow', 'product_rule', 'quotient_rule', 'outer_dot'][case['idx'] % 9]
    n = int(rng.integers(1, 4)) if which in ('det', 'inv') else int(rng.integers(2, 4))
    vf = V.VForm(n if which in ('product_rule', 'quotient_rule') else 2)
    sig = {'kind': 'identity', 'which': which}
    c = dict(case, which=which, n=n)
    rec.case(c, nontrivial=True)
    def grid(nvars, values):
        tot = len(values) ** nvars
        if tot <= 4096: yield from itertools.product(values, repeat=nvars)
        else:
            for _ in range(3000): yield tuple(int(v) for v in rng.choice(values, size=nvars))
    def run(expr, nvars, reference, values=(0, 1, 2), names=None):
        cnt = 0
        for pt in grid(nvars, values):
            tab = {}
            def leaf(name, I, D, par):
                return tab[(name, I, D)]
            names(tab, [Fraction(int(v)) for v in pt])
            try:
                got = _exact(expr, leaf)
            except (_DivZero, ZeroDivisionError):
                continue
            want = reference(tab)
            if want is None: continue
            cnt += 1
            if got != want:
                rec.violation(dict(sig, oracle='operator expansion equals its definition (exact arithmetic)'), c, {'point': [int(v) for v in pt], 'got': repr(got)[:200], 'want': repr(want)[:200]})
                return
        rec.count('oracle:exact_identity', cnt)
    Z = lambda k: (0,) * k
    d0 = Z(vf.dim)
    if which in ('det', 'inv'):
        A = vf.parameter('A', shape=(n, n))
        def names(tab, vals):
            for i in range(n):
                for j in range(n): tab[('A', (i, j), d0)] = vals[i * n + j]
        Am = lambda tab: [[tab[('A', (i, j), d0)] for j in range(n)] for i in range(n)]
        if which == 'det':
            run(V.det(A), n * n, lambda tab: _det_exact(Am(tab)), values=(0, 1) if n == 3 else (-1, 0, 1, 2), names=names)
        else:
            def ref(tab):
                M = Am(tab); dt = _det_exact(M)
                if dt == 0: return None
                adj = [[(-1) ** (i + j) * _det_exact([[M[r][cc] for cc in range(n) if cc != i] for r in range(n) if r != j]) if n > 1 else Fraction(1) for j in range(n)] for i in range(n)]
                return [[adj[i][j] / dt for j in range(n)] for i in range(n)]
            run(V.inv(A), n * n, ref, values=(0, 1) if n == 3 else (-1, 0, 1, 2), names=names)
    elif which == 'cross':
        a = vf.parameter('a', shape=(3,)); b = vf.parameter('b', shape=(3,))
        def names(tab, vals):
            for i in range(3): tab[('a', (i,), d0)] = vals[i]; tab[('b', (i,), d0)] = vals[3 + i]
        def ref(tab):
            x = [tab[('a', (i,), d0)] for i in range(3)]; y = [tab[('b', (i,), d0)] for i in range(3)]
            return [x[1] * y[2] - x[2] * y[1], x[2] * y[0] - x[0] * y[2], x[0] * y[1] - x[1] * y[0]]
        run(V.as_vector([V.cross(a, b)[i] for i in range(3)]), 6, ref, values=(-1, 0, 1, 2), names=names)
    elif which in ('matmul', 'outer_dot', 'tr_T_inner'):
        m = int(rng.integers(1, 4))
        A = vf.parameter('A', shape=(n, m)); B = vf.parameter('B', shape=(m, n)); x = vf.parameter('x', shape=(m,)); y = vf.parameter('y', shape=(n,))
        def names(tab, vals):
            k = 0
            for i in range(n):
                for j in range(m): tab[('A', (i, j), d0)] = vals[k % len(vals)]; k += 1
            for i in range(m):
                for j in range(n): tab[('B', (i, j), d0)] = vals[k % len(vals)]; k += 1
            for i in range(m): tab[('x', (i,), d0)] = vals[k % len(vals)]; k += 1
            for i in range(n): tab[('y', (i,), d0)] = vals[k % len(vals)]; k += 1
        gA = lambda tab: [[tab[('A', (i, j), d0)] for j in range(m)] for i in range(n)]
        gB = lambda tab: [[tab[('B', (i, j), d0)] for j in range(n)] for i in range(m)]
        gx = lambda tab: [tab[('x', (i,), d0)] for i in range(m)]; gy = lambda tab: [tab[('y', (i,), d0)] for i in range(n)]
        nv = 2 * n * m + n + m
        if which == 'matmul':
            expr = V.as_matrix([[V.dot(A, B)[i, j] for j in range(n)] for i in range(n)])
            run(expr, nv, lambda tab: [[sum(gA(tab)[i][k] * gB(tab)[k][j] for k in range(m)) for j in range(n)] for i in range(n)], values=(-1, 0, 1, 2), names=names)
            expr = V.as_vector([V.dot(A, x)[i] for i in range(n)])
            run(expr, nv, lambda tab: [sum(gA(tab)[i][k] * gx(tab)[k] for k in range(m)) for i in range(n)], values=(-1, 0, 1, 2), names=names)
        elif which == 'outer_dot':
            expr = V.as_matrix([[V.outer(y, x)[i, j] for j in range(m)] for i in range(n)])
            run(expr, nv, lambda tab: [[gy(tab)[i] * gx(tab)[j] for j in range(m)] for i in range(n)], values=(-1, 0, 1, 2), names=names)
            run(V.dot(y, V.dot(A, x)), nv, lambda tab: sum(gy(tab)[i] * sum(gA(tab)[i][k] * gx(tab)[k] for k in range(m)) for i in range(n)), values=(-1, 0, 1, 2), names=names)
        else:
            AB = V.dot(A, B)
            run(V.tr(AB), nv, lambda tab: sum(sum(gA(tab)[i][k] * gB(tab)[k][i] for k in range(m)) for i in range(n)), values=(-1, 0, 1, 2), names=names)
            run(V.inner(A, B.T), nv, lambda tab: sum(gA(tab)[i][j] * gB(tab)[j][i] for i in range(n) for j in range(m)), values=(-1, 0, 1, 2), names=names)
            expr = V.as_matrix([[A.T[i, j] for j in range(n)] for i in range(m)])
            run(expr, nv, lambda tab: [[gA(tab)[j][i] for j in range(n)] for i in range(m)], values=(-1, 0, 1, 2), names=names)
    elif which == 'pow':
        a = vf.parameter('a')
        k = int(rng.integers(-3, 5))
        def names(tab, vals): tab[('a', (), d0)] = vals[0]
        run(a ** k, 1, lambda tab: (tab[('a', (), d0)] ** k) if (k >= 0 or tab[('a', (), d0)] != 0) else None, values=(-3, -2, -1, 1, 2, 3, 5), names=names)
    else:
        dim = vf.dim
        f = vf.input('f'); g = vf.input('g')
        k = int(rng.integers(0, dim)); par = True
        ek = tuple(1 if i == k else 0 for i in range(dim))
        def names(tab, vals):
            tab[('f_a', (), d0)] = vals[0]; tab[('g_a', (), d0)] = vals[1]; tab[('f_a', (), ek)] = vals[2]; tab[('g_a', (), ek)] = vals[3]
        F = lambda tab: (tab[('f_a', (), d0)], tab[('g_a', (), d0)], tab[('f_a', (), ek)], tab[('g_a', (), ek)])
        if which == 'product_rule':
            run(V.Dx(f * g, k, parametric=par), 4, lambda tab: F(tab)[2] * F(tab)[1] + F(tab)[0] * F(tab)[3], values=(-2, -1, 0, 1, 2, 3), names=names)
            run(V.Dx(f + g * 3 - f, k, parametric=par), 4, lambda tab: 3 * F(tab)[3], values=(-2, -1, 0, 1, 2, 3), names=names)
            h = vf.let('h', f * g + g)
            run(V.Dx(h * f, k, parametric=par), 4, lambda tab: (F(tab)[2] * F(tab)[1] + F(tab)[0] * F(tab)[3] + F(tab)[3]) * F(tab)[0] + (F(tab)[0] * F(tab)[1] + F(tab)[1]) * F(tab)[2],
                values=(-2, -1, 0, 1, 2, 3), names=names)
        else:
            run(V.Dx(f / g, k, parametric=par), 4, lambda tab: None if F(tab)[1] == 0 else (F(tab)[2] * F(tab)[1] - F(tab)[0] * F(tab)[3]) / F(tab)[1] ** 2,
                values=(-2, -1, 1, 2, 3), names=names)
            run(V.Dx(1 / (g * g), k, parametric=par), 4, lambda tab: None if F(tab)[1] == 0 else -2 * F(tab)[3] / F(tab)[1] ** 3, values=(-2, -1, 1, 2, 3), names=names)
