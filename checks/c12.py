"""C12 — time integrators realise consistent RK/Rosenbrock schemes of their stated order.

Monitors: recording wrappers on the module globals solvers.newton / dirk_step / rosenbrock_step
(looked up at call time by the drivers) give the stage values and every step attempt; a dense
reference evaluates the stage equations from the tableau; the controller trace is checked
offline against its specification; tableaux captured from the real methods are checked against
the rooted-tree order conditions.
"""
import numpy as np

PROPERTY = 'C12'
LEVEL = 'exploration'
RULE = ('all 12 shipped methods + random user DIRK tableaux x mass matrix {None, dense SPD, sparse SPD} x random linear (stiff/non-stiff) and smooth '
        'nonlinear systems n<=8 x tau over 3 decades (single steps: stage equations from recorded Newton results); order conditions on the tableaux '
        'the methods actually use; constant-step and adaptive driver runs with recorded step attempts (tolerances, step factors, t0, t_end random); '
        'Newton on random smooth systems incl. non-convergent ones; distinct by descriptor; non-trivial if n >= 2 or a driver run has >= 2 attempts')
MIN_NONTRIVIAL = {'quick': 300, 'thorough': 6000}
REQUIRED_COUNTERS = ['oracle:stage_equations', 'oracle:step_result', 'oracle:order_conditions', 'oracle:controller_trace', 'oracle:const_times',
                     'hook:newton', 'hook:step_attempt', 'oracle:newton_post', 'oracle:attempt_consistency']
ASSUMPTIONS = ["y'=const: DIRK results are exact only up to the hard-coded Newton tolerance (1e-4 per implicit stage), Rosenbrock results to rounding",
               'stage residuals are held to the Newton target the code states: max(1e-4, 1e-6*initial residual)',
               'order conditions are required to 5e-9 (coefficients are literature values printed to >= 10 digits)',
               'Rosenbrock methods: main weights are checked for order 3 and embedded weights for the err_order passed to the controller (the source documents no orders)']

DIRK_METHODS = {  # name: (documented main order, documented embedded order or None)
    'crank_nicolson': (2, None), 'sdirk3': (3, None), 'sdirk3_b': (4, None), 'sdirk21': (2, 1), 'dirk34': (3, 2), 'esdirk23': (2, 3), 'esdirk34': (3, 4)}
ROS_METHODS = {'ros3p': 2, 'ros3pw': 2, 'rowdaind2': 2, 'rodasp': 3, 'rosi2p1': 2}     # name: err_order passed to the controller

def cases(tier, seed):
    for name in list(DIRK_METHODS) + list(ROS_METHODS):
        yield {'kind': 'tableau', 'method': name}
    n = {'quick': 420, 'thorough': 50000}[tier]
    for i in range(n):
        yield {'kind': 'step', 'seed': seed, 'idx': i}
    n = {'quick': 96, 'thorough': 10000}[tier]
    for i in range(n):
        yield {'kind': 'driver', 'seed': seed, 'idx': i}
    n = {'quick': 60, 'thorough': 8000}[tier]
    for i in range(n):
        yield {'kind': 'newton', 'seed': seed, 'idx': i}

# ---- order conditions ----------------------------------------------------------------------------
def rk_conditions(A, b, order):
    s = len(b); c = A.sum(axis=1)
    conds = [('sum b = 1', b.sum() - 1)]
    if order >= 2: conds += [('b.c = 1/2', b @ c - 0.5)]
    if order >= 3: conds += [('b.c^2 = 1/3', b @ c ** 2 - 1 / 3), ('b.A.c = 1/6', b @ A @ c - 1 / 6)]
    if order >= 4: conds += [('b.c^3 = 1/4', b @ c ** 3 - 0.25), ('b.(c*Ac) = 1/8', b @ (c * (A @ c)) - 0.125),
                             ('b.A.c^2 = 1/12', b @ A @ c ** 2 - 1 / 12), ('b.A.A.c = 1/24', b @ A @ A @ c - 1 / 24)]
    return conds

def ros_conditions(Al, Gam, b, order):
    B = Al + Gam; one = np.ones(len(b)); al = Al.sum(axis=1)
    conds = [('sum b = 1', b.sum() - 1)]
    if order >= 2: conds += [('b.B.1 = 1/2', b @ B @ one - 0.5)]
    if order >= 3: conds += [('b.alpha^2 = 1/3', b @ al ** 2 - 1 / 3), ('b.B.B.1 = 1/6', b @ B @ B @ one - 1 / 6)]
    return conds

# ---- problems ------------------------------------------------------------------------------------
def _mass(rng, n, kind):
    import scipy.sparse
    if kind == 'none': return None, np.eye(n)
    B = rng.standard_normal((n, n)); M = B @ B.T / n + np.eye(n)
    if kind == 'sparse':
        M = np.diag(np.diag(M)) + np.diag(np.diag(M, 1) * 0.3, 1) + np.diag(np.diag(M, 1) * 0.3, -1)
        return scipy.sparse.csr_matrix(M), M
    return M, M

def _problem(rng, n, kind, sparse_jac=False, scale=1.0):
    import scipy.sparse
    if kind in ('linear', 'stiff'):
        B = rng.standard_normal((n, n))
        Lm = -(B @ B.T) / n - 0.2 * np.eye(n) + 0.3 * (B - B.T)
        if kind == 'stiff': Lm = Lm * np.diag(10.0 ** rng.uniform(0, 3, n))
        g = rng.standard_normal(n) * 3 * scale
        _problem.last_linear = (Lm, g)
        F = lambda y: Lm @ y + g
        Jd = lambda y: Lm
    else:
        B = rng.standard_normal((n, n)) * 0.5; g = rng.standard_normal(n) * 3
        F = lambda y: B @ y - y ** 3 + np.sin(y) + g
        Jd = lambda y: B - np.diag(3 * y ** 2) + np.diag(np.cos(y))
    J = (lambda y: scipy.sparse.csr_matrix(Jd(y))) if sparse_jac else Jd
    return F, J, Jd

class _AttemptLimit(Exception):
    """raised by the recording step wrappers after ATTEMPT_LIMIT attempts of one driver run: the run decides nothing"""
ATTEMPT_LIMIT = 30000

class Hooks:
    """Recording wrappers on the module globals of pyiga.solvers."""
    def __init__(self, rec):
        from pyiga import solvers
        self.s = solvers; self.rec = rec
        self.orig = (solvers.newton, solvers.dirk_step, solvers.rosenbrock_step)
        self.newton_log = []; self.attempts = []
        def newton(F, J, x0, atol=1e-6, rtol=1e-6, maxiter=100, freeze_jac=1):
            rec.count('hook:newton')
            x0c = np.array(x0, dtype=float)
            try:
                r = self.orig[0](F, J, x0, atol=atol, rtol=rtol, maxiter=maxiter, freeze_jac=freeze_jac)
            except solvers.NoConvergenceError:
                self.newton_log.append({'x0': x0c, 'result': None, 'atol': atol, 'rtol': rtol}); raise
            self.newton_log.append({'x0': x0c, 'result': np.array(r, dtype=float), 'atol': atol, 'rtol': rtol, 'F': F})
            return r
        def dirk_step(A, M, F, J, x, tau, data=None, Fx=None):
            rec.count('hook:step_attempt')
            if len(self.attempts) >= ATTEMPT_LIMIT: raise _AttemptLimit()
            e = {'type': 'dirk', 'A': np.array(A), 'x': np.array(x, dtype=float), 'tau': float(tau), 'xobj': x, 'Fx': None if Fx is None else np.array(Fx)}
            self.attempts.append(e)
            try:
                r = self.orig[1](A, M, F, J, x, tau, data, Fx=Fx)
            except solvers.NoConvergenceError:
                e['raised'] = True; raise
            e['ret'] = r
            return r
        def rosenbrock_step(A, Gamma, b, b_hat, M, F, J, x, tau, data, Fx=None):
            rec.count('hook:step_attempt')
            if len(self.attempts) >= ATTEMPT_LIMIT: raise _AttemptLimit()
            e = {'type': 'ros', 'A': np.array(A), 'Gamma': np.array(Gamma), 'b': np.array(b), 'b_hat': None if b_hat is None else np.array(b_hat),
                 'x': np.array(x, dtype=float), 'tau': float(tau), 'xobj': x, 'Fx': None if Fx is None else np.array(Fx)}
            self.attempts.append(e)
            r = self.orig[2](A, Gamma, b, b_hat, M, F, J, x, tau, data, Fx=Fx)
            e['ret'] = r
            return r
        solvers.newton, solvers.dirk_step, solvers.rosenbrock_step = newton, dirk_step, rosenbrock_step
    def close(self):
        self.s.newton, self.s.dirk_step, self.s.rosenbrock_step = self.orig

def run_case(rec, case):
    h = Hooks(rec)
    try:
        {'tableau': _tableau, 'step': _step, 'driver': _driver, 'newton': _newton}[case['kind']](rec, case, h)
    finally:
        h.close()

def _capture_tableau(h, name):
    from pyiga import solvers
    n = 2
    F = lambda y: -y + 1.0; J = lambda y: -np.eye(n); M = np.eye(n)
    h.attempts.clear()
    meth = getattr(solvers, name)
    if name in ('crank_nicolson', 'sdirk3', 'sdirk3_b'):
        meth(M, F, J, np.ones(n) * 0.5, 0.1, 0.1)
    else:
        meth(M, F, J, np.ones(n) * 0.5, 0.1, 0.05, 1e-1)
    return h.attempts[0]

def _tableau(rec, case, h):
    from pyiga import solvers
    from verif.api import guarded
    name = case['method']
    rec.case(case, nontrivial=True)
    sig = {'route': 'tableau', 'tableau': name}
    ok, att = guarded(rec, case, sig, _capture_tableau, h, name)
    if not ok: return
    TOL = 5e-9
    def check(which, conds):
        for (cname, resid) in conds:
            rec.count('oracle:order_conditions')
            rec.ratio('order_conditions', abs(resid), TOL)
            if not abs(resid) <= TOL:
                rec.violation(dict(sig, weights=which, condition=cname), case, {'residual': float(resid)})
    if att['type'] == 'dirk':
        T = att['A']; s = T.shape[1]
        A = T[:s]; b = T[s]
        main_o, emb_o = DIRK_METHODS[name]
        check('main', rk_conditions(A, b, main_o))
        if emb_o is not None:
            if T.shape[0] != s + 2:
                rec.violation(dict(sig, oracle='embedded weights present'), case, {}); return
            check('embedded', rk_conditions(A, T[s + 1], emb_o))
        # the coefficient function must return the tableau the method uses
        cf = getattr(solvers, 'coeffs_' + name, None)
        if cf is not None:
            r = cf(); Tc = r[0] if isinstance(r, tuple) else r
            if not np.array_equal(np.asarray(Tc), T):
                rec.violation(dict(sig, oracle='coeffs_*() is the tableau the method uses'), case, {})
    else:
        check('main', ros_conditions(att['A'], att['Gamma'], att['b'], 3))
        check('embedded', ros_conditions(att['A'], att['Gamma'], att['b_hat'], ROS_METHODS[name]))
        g = np.diag(att['Gamma'])
        if not np.all(g == g[0]) or np.any(np.triu(att['A']) != 0) or np.any(np.triu(att['Gamma'], 1) != 0):
            rec.violation(dict(sig, oracle='lower triangular with constant diagonal gamma'), case, {})

def _random_dirk(rng):
    s = int(rng.integers(1, 4))
    A = np.tril(rng.uniform(-0.3, 0.8, (s, s)))
    A[np.arange(s), np.arange(s)] = rng.uniform(0.2, 0.6, s)
    if rng.random() < 0.3: A[0, 0] = 0.0; A[0, :] = 0.0            # explicit first stage
    sa = rng.random() < 0.4
    b = A[-1].copy() if sa else rng.uniform(-0.2, 0.8, s)
    rows = [A, b[None, :]]
    if rng.random() < 0.5: rows.append(rng.uniform(-0.2, 0.8, (1, s)))
    return np.vstack(rows)

class _NoConv(Exception):
    pass

def _call_allowing_noconv(solvers, T, Mop, F, J, x, tau, Fx):
    try:
        return solvers.dirk_step(T, Mop, F, J, x, tau, dict(), Fx)
    except solvers.NoConvergenceError:
        raise _NoConv()

def _ros_ref(Al, Gam, b, bh, Md, F, Jd, x, tau):
    """Textbook Rosenbrock step with dense linear algebra: (x_new, x_embedded, cond of the stage matrix, scale)."""
    gam = Gam[0, 0]; Jx = np.asarray(Jd(x)); C = Md - tau * gam * Jx
    ks = []
    for i in range(len(b)):
        yi = x + tau * sum(Al[i, j] * ks[j] for j in range(i))
        rhs = F(yi) + (tau * Jx @ sum(Gam[i, j] * ks[j] for j in range(i)) if i > 0 else 0)
        ks.append(np.linalg.solve(C, rhs))
    ref_new = x + tau * sum(b[i] * ks[i] for i in range(len(b)))
    ref_est = None if bh is None else x + tau * sum(bh[i] * ks[i] for i in range(len(b)))
    cond = np.linalg.cond(C); scale = max(np.abs(ref_new).max(), np.abs(x).max(), tau * max(np.abs(k).max() for k in ks), 1.0)
    return ref_new, ref_est, cond, scale

def _step(rec, case, h):
    from pyiga import solvers
    from verif.gen import rng_for
    from verif.api import guarded
    rng = rng_for('C12step', case['seed'], case['idx'])
    n = int(rng.integers(1, 9))
    mkind = str(rng.choice(['none', 'dense', 'sparse']))
    pkind = str(rng.choice(['linear', 'stiff', 'nonlinear']))
    names = list(DIRK_METHODS) + list(ROS_METHODS) + ['user_dirk']
    name = names[case['idx'] % len(names)]
    tau = float(10.0 ** rng.uniform(-3, 0))
    Mop, Md = _mass(rng, n, mkind)
    # data scale: the property quantifies over every state and right-hand side, not only O(1) ones
    dscale = float(10.0 ** rng.uniform(-6, 1)) if (pkind != 'nonlinear' and rng.random() < 0.4) else 1.0
    F, J, Jd = _problem(rng, n, pkind, sparse_jac=(mkind == 'sparse' and rng.random() < 0.5), scale=dscale)
    x = rng.standard_normal(n) * dscale
    c = dict(case, n=n, mass=mkind, problem=pkind, method=name, tau=tau, data_scale=dscale)
    rec.case(c, nontrivial=n >= 2)
    sig = {'route': 'step', 'method': name, 'mass': mkind, 'problem': 'nonlinear' if pkind == 'nonlinear' else 'linear'}
    if name in ROS_METHODS:
        att = _capture_tableau(h, name); h.attempts.clear()
        Al, Gam, b, bh = att['A'], att['Gamma'], att['b'], att['b_hat']
        ok, r = guarded(rec, c, sig, solvers.rosenbrock_step, Al, Gam, b, bh, Mop, F, J, x.copy(), tau, dict())
        if not ok: return
        x_new, x_est = np.asarray(r[0], dtype=float).ravel(), np.asarray(r[1], dtype=float).ravel()
        ref_new, ref_est, cond, scale = _ros_ref(Al, Gam, b, bh, Md, F, Jd, x, tau)
        rec.count('oracle:stage_equations')
        rec.check_close('step_result', float(max(np.abs(x_new - ref_new).max(), np.abs(x_est - ref_est).max())), float(1e-11 * cond * scale * len(b)), sig, c)
        return
    if name == 'user_dirk':
        T = _random_dirk(rng)
    else:
        T = _capture_tableau(h, name)['A']
    h.attempts.clear(); h.newton_log.clear()
    s = T.shape[1]; A = T[:s]; b = T[s]
    Fx = F(x) if rng.random() < 0.5 else None
    try:
        ok, r = guarded(rec, c, sig, lambda: _call_allowing_noconv(solvers, T, Mop, F, J, x.copy(), tau, Fx))
    except _NoConv:
        rec.count('newton_no_convergence_raised')       # legitimate: Newton must raise rather than return a bad point
        return
    if not ok: return
    x_new = np.asarray(r[0], dtype=float).ravel()
    # stage values: explicit first stage is x itself; the others are the results recorded at the newton hook
    ys = []; logs = list(h.newton_log)
    for i in range(s):
        if A[i, i] == 0:
            ys.append(x.copy())
        else:
            if not logs:
                rec.violation(dict(sig, oracle='one nonlinear solve per implicit stage'), c, {'stage': i}); return
            ys.append(logs.pop(0)['result'])
    if logs:
        rec.violation(dict(sig, oracle='one nonlinear solve per implicit stage'), c, {'extra': len(logs)}); return
    Fy = [F(y) for y in ys]
    worst = 0.0
    for i in range(s):
        if A[i, i] == 0: continue
        x_start = x if i == 0 else ys[i - 1]
        def resid(z, Fz):
            return Md @ z - Md @ x - tau * sum(A[i, j] * Fy[j] for j in range(i)) - tau * A[i, i] * Fz
        res0 = np.linalg.norm(resid(x_start, F(x_start)))
        target = max(1e-4, 1e-6 * res0)
        ri = np.linalg.norm(resid(ys[i], Fy[i]))
        rec.count('oracle:stage_equations')
        rec.ratio('stage_equations', ri, target)
        if not ri <= target * (1 + 1e-9) + 1e-12 * (np.linalg.norm(Md @ x) + 1):
            rec.violation(dict(sig, oracle='stage equation satisfied to the Newton tolerance'), c, {'stage': i, 'residual': float(ri), 'target': float(target)}); return
    # linear problems: the stage equations are linear systems, so the step must equal their exact (dense) solution to rounding,
    # whatever the magnitude of the data; a stage whose Newton solve returned its starting point unchanged was skipped by the
    # absolute tolerance (part of the signature)
    if pkind in ('linear', 'stiff'):
        Lm, g = _problem.last_linear
        skipped = any(A[i, i] != 0 and np.array_equal(ys[i], x if i == 0 else ys[i - 1]) for i in range(s))
        yr = []; Fr = []; cmax = 1.0
        for i in range(s):
            if A[i, i] == 0: yi = x.copy()
            else:
                Ci = Md - tau * A[i, i] * Lm
                yi = np.linalg.solve(Ci, Md @ x + tau * sum(A[i, j] * Fr[j] for j in range(i)) + tau * A[i, i] * g)
                cmax = max(cmax, np.linalg.cond(Ci))
            yr.append(yi); Fr.append(Lm @ yi + g)
        xr = yr[s - 1] if np.allclose(b, A[s - 1]) else x + tau * np.linalg.solve(Md, sum(b[i] * Fr[i] for i in range(s)))
        sc_lin = max(np.abs(xr).max(), np.abs(x).max(), tau * max(np.abs(f).max() for f in Fr))
        rec.check_close('linear_stage_exact', float(np.abs(x_new - xr).max()), float(1e-9 * cmax * np.linalg.cond(Md) * sc_lin * s + 1e-300),
                        dict(sig, stage_skipped_by_absolute_newton_tolerance=bool(skipped)), c)
    # result from the stage values
    if np.allclose(b, A[s - 1]):
        ref_new = ys[s - 1]
    else:
        ref_new = x + tau * np.linalg.solve(Md, sum(b[i] * Fy[i] for i in range(s)))
    condM = np.linalg.cond(Md); scale = max(np.abs(ref_new).max(), np.abs(x).max(), 1.0) + tau * max(np.abs(f).max() for f in Fy)
    rec.check_close('step_result', float(np.abs(x_new - ref_new).max()), float(1e-11 * condM * scale * s), sig, c)
    if T.shape[0] == s + 2:
        ref_est = x + tau * np.linalg.solve(Md, sum(T[s + 1, i] * Fy[i] for i in range(s)))
        x_est = np.asarray(r[1], dtype=float).ravel()
        rec.check_close('step_result', float(np.abs(x_est - ref_est).max()), float(1e-11 * condM * scale * s), dict(sig, which='embedded'), c)
    # a reused right-hand side must be F of the returned state
    Fnew = r[-1]
    if Fnew is not None and np.abs(np.asarray(Fnew) - F(x_new)).max() > 1e-9 * (np.abs(F(x_new)).max() + 1):
        rec.violation(dict(sig, oracle='returned right-hand side is F(x_new)'), c, {})

def _driver(rec, case, h):
    import io, contextlib
    from pyiga import solvers
    from verif.gen import rng_for
    from verif.api import guarded
    rng = rng_for('C12drv', case['seed'], case['idx'])
    names = list(DIRK_METHODS) + list(ROS_METHODS)
    name = names[case['idx'] % len(names)]
    adaptive_capable = name not in ('crank_nicolson', 'sdirk3', 'sdirk3_b')
    n = int(rng.integers(1, 6))
    mkind = str(rng.choice(['dense', 'sparse'] if name in ROS_METHODS else ['none', 'dense', 'sparse']))
    pkind = str(rng.choice(['linear', 'stiff', 'nonlinear', 'const']))
    Mop, Md = _mass(rng, n, mkind)
    dscale = 1.0
    if pkind == 'const':
        dscale = float(10.0 ** rng.uniform(-6, 1)) if rng.random() < 0.5 else 1.0
        cvec = rng.standard_normal(n) * dscale
        F = lambda y: cvec.copy(); J = lambda y: np.zeros((n, n)); Jd = J
    else:
        F, J, Jd = _problem(rng, n, pkind)
    x0 = rng.standard_normal(n) * dscale
    t0 = float(rng.choice([0.0, 0.0, -1.5, 2.25])); T = float(rng.uniform(0.05, 1.5)); t_end = t0 + T
    tau0 = float(T * 10.0 ** rng.uniform(-2, 0.3))
    adaptive = adaptive_capable and rng.random() < 0.7
    tol = float(10.0 ** rng.uniform(-6, -1)) if adaptive else None
    sf = float(rng.uniform(0.5, 0.95))
    c = dict(case, method=name, n=n, mass=mkind, problem=pkind, t0=t0, t_end=t_end, tau0=tau0, tol=tol, step_factor=sf)
    sig = {'route': 'driver', 'method': name, 'adaptive': adaptive}
    meth = getattr(solvers, name)
    h.attempts.clear(); h.newton_log.clear()
    try:
      with contextlib.redirect_stdout(io.StringIO()):
        if not adaptive_capable:
            ok, r = guarded(rec, c, sig, meth, Mop, F, J, x0, tau0, t_end, t0=t0)
        elif adaptive:
            ok, r = guarded(rec, c, sig, meth, Mop, F, J, x0, tau0, t_end, tol, t0=t0, step_factor=sf)
        else:
            ok, r = guarded(rec, c, sig, meth, Mop, F, J, x0, tau0, t_end, None, t0=t0)
    except _AttemptLimit:
        # a run that needs more attempts than the harness allows decides nothing (bounded workload, not a verdict on progress)
        rec.count('driver_run_stopped_at_attempt_limit'); rec.case(c, nontrivial=False); return
    rec.case(c, nontrivial=len(h.attempts) >= 2)
    if not ok: return
    times, sols = r
    att = list(h.attempts)
    def bad(what, **w): rec.violation(dict(sig, oracle=what), c, w)
    if len(times) != len(sols): bad('one state per time'); return
    if times[0] != t0 or sols[0] is not x0 and not np.array_equal(sols[0], x0): bad('starts at (t0, x0)'); return
    if any(b_ <= a_ for a_, b_ in zip(times[:-1], times[1:])): bad('times strictly increasing', times=[float(t) for t in times[:6]]); return
    # ---- every attempt of the run is a consistent step on its own: the right-hand side handed in is F of the start state, the
    # right-hand side handed back is F of the new state, and a Rosenbrock attempt equals the textbook step from (x, tau)
    for i, e in enumerate(att):
        if e.get('raised') or 'ret' not in e: continue
        rec.count('oracle:attempt_consistency')
        Fs = F(e['x'])
        if e.get('Fx') is not None and np.abs(e['Fx'] - Fs).max() > 1e-10 * (np.abs(Fs).max() + 1):
            bad('the right-hand side handed to a step is F of the state the step starts from', attempt=i, deviation=float(np.abs(e['Fx'] - Fs).max())); return
        xn = np.asarray(e['ret'][0], dtype=float).ravel(); Fn = e['ret'][-1]
        if Fn is not None and np.shape(Fn) == np.shape(xn) and np.abs(np.asarray(Fn) - F(xn)).max() > 1e-9 * (np.abs(F(xn)).max() + 1):
            bad('the right-hand side handed back by a step is F of the new state', attempt=i); return
        if e['type'] == 'ros':
            with np.errstate(all='ignore'):
                ref_new, ref_est, cond, scale = _ros_ref(e['A'], e['Gamma'], e['b'], e['b_hat'], Md, F, Jd, e['x'], e['tau'])
            if not (np.all(np.isfinite(ref_new)) and np.isfinite(cond) and np.isfinite(scale)):
                rec.count('attempt_reference_not_finite'); continue        # a trial step that overflows (huge tau on a nonlinear problem) decides nothing
            dev = float(np.abs(xn - ref_new).max())
            if ref_est is not None and e['ret'][1] is not None: dev = max(dev, float(np.abs(np.asarray(e['ret'][1], dtype=float).ravel() - ref_est).max()))
            rec.ratio('attempt_vs_textbook_step', dev, 1e-10 * cond * scale * len(e['b']))
            if not dev <= 1e-10 * cond * scale * len(e['b']):
                bad('every attempt of the driver equals the textbook step from its own (x, tau)', attempt=i, deviation=dev, first_attempt=(i == 0)); return
    if not adaptive:
        rec.count('oracle:const_times')
        import math
        k = int(math.ceil((t_end - t0) / tau0))
        raised = any(e.get('raised') for e in att)
        if not raised:
            if len(times) != k + 1: bad('constant-step driver takes ceil((t_end-t0)/tau) steps', got=len(times) - 1, want=k); return
            if any(times[i] != t0 + i * tau0 for i in range(k + 1)): bad('constant-step times are exactly t0 + k*tau'); return
            if any(e['tau'] != tau0 for e in att): bad('constant step size'); return
        if pkind == 'const' and not raised:
            ref = x0 + (times[-1] - t0) * np.linalg.solve(Md, cvec)
            nst = len(times) * 6
            skipped = any(l['result'] is not None and np.array_equal(l['x0'], l['result']) for l in h.newton_log)
            rec.check_close("y'=const exact", float(np.abs(sols[-1] - ref).max()),
                            1e-9 * (np.abs(ref).max() + np.abs(x0).max()) * len(times) * np.linalg.cond(Md) + 1e-300,
                            dict(sig, stage_skipped_by_absolute_newton_tolerance=bool(skipped)), c)
        return
    # ---- adaptive controller trace
    rec.count('oracle:controller_trace')
    if not (times[-1] >= t_end and (len(times) < 2 or times[-2] < t_end)):
        bad('reaches the end time and stops there', last=float(times[-1]), t_end=t_end); return
    err_order = ROS_METHODS.get(name) or {'sdirk21': 1, 'dirk34': 2, 'esdirk23': 3, 'esdirk34': 4}[name]
    t = t0; x = x0; k = 1; tau_expected = tau0
    for i, e in enumerate(att):
        if abs(e['tau'] - tau_expected) > 1e-12 * abs(tau_expected):
            bad('step size follows the controller', attempt=i, tau=e['tau'], expected=tau_expected); return
        if not np.array_equal(e['x'], np.asarray(x, dtype=float)):
            bad('attempt starts from the last accepted state', attempt=i); return
        if e.get('raised'):
            tau_expected = e['tau'] * 0.5
            continue
        xnew, xhat = e['ret'][0], e['ret'][1]
        d = tol + tol * np.abs(x)
        rr = np.linalg.norm((np.asarray(xhat) - np.asarray(xnew)) / d) / np.sqrt(len(x))
        if rr == 0: rr = 1e-15
        accepted = (k < len(sols)) and (sols[k] is xnew)
        if accepted != (rr <= 1):
            bad('a step is accepted iff the scaled error estimate is <= 1', attempt=i, r=float(rr), accepted=bool(accepted)); return
        fac = sf * rr ** (-1.0 / err_order)
        fac_c = min(5.0, max(0.2, fac))
        if accepted:
            if abs(times[k] - (t + e['tau'])) > 1e-12 * (abs(t) + e['tau'] + 1): bad('accepted step advances time by tau', attempt=i); return
            t = times[k]; x = xnew; k += 1
        tau_expected = e['tau'] * fac_c
        if i + 1 < len(att):
            ratio = att[i + 1]['tau'] / e['tau']
            if not (0.2 * (1 - 1e-12) <= ratio <= 5.0 * (1 + 1e-12)):
                bad('step size changes by a factor within [0.2, 5]', attempt=i, ratio=float(ratio)); return
    if k != len(sols): bad('every returned state is an accepted step result', accepted=k, returned=len(sols))
    if pkind == 'const':
        ref = x0 + (times[-1] - t0) * np.linalg.solve(Md, cvec)
        nst = len(times) * 6
        skipped = any(l['result'] is not None and np.array_equal(l['x0'], l['result']) for l in h.newton_log)
        rec.check_close("y'=const exact", float(np.abs(sols[-1] - ref).max()),
                        1e-9 * (np.abs(ref).max() + np.abs(x0).max()) * len(times) * np.linalg.cond(Md) + 1e-300,
                        dict(sig, stage_skipped_by_absolute_newton_tolerance=bool(skipped)), c)

def _newton(rec, case, h):
    from pyiga import solvers
    from verif.gen import rng_for
    rng = rng_for('C12nwt', case['seed'], case['idx'])
    n = int(rng.integers(1, 7))
    B = rng.standard_normal((n, n)) + 2 * np.eye(n); g = rng.standard_normal(n) * 2
    hard = case['idx'] % 4 == 3
    if hard:
        F = lambda y: np.arctan(5 * (y - 2.0)) + 0.0 * g          # Newton diverges from far starting points
        J = lambda y: np.diag(5 / (1 + 25 * (y - 2.0) ** 2))
        x0 = rng.uniform(3, 6, n)
    else:
        F = lambda y: B @ y + 0.3 * y ** 3 - g
        J = lambda y: B + np.diag(0.9 * y ** 2)
        x0 = rng.standard_normal(n)
    atol = float(10.0 ** rng.uniform(-10, -3)); rtol = float(10.0 ** rng.uniform(-10, -3)); maxiter = int(rng.integers(1, 30)); fj = int(rng.integers(1, 4))
    c = dict(case, n=n, hard=hard, atol=atol, rtol=rtol, maxiter=maxiter, freeze_jac=fj)
    rec.case(c, nontrivial=True)
    sig = {'route': 'newton', 'hard': hard}
    x0c = x0.copy()
    res0 = np.linalg.norm(F(x0)); target = max(atol, rtol * res0)
    rec.count('oracle:newton_post')
    try:
        with np.errstate(all='ignore'):
            r = h.orig[0](F, J, x0, atol=atol, rtol=rtol, maxiter=maxiter, freeze_jac=fj)
    except solvers.NoConvergenceError:
        return
    except Exception as e:
        rec.violation(dict(sig, oracle='raises only NoConvergenceError', exc=type(e).__name__), c, {'msg': str(e)[:200]}); return
    rn = np.linalg.norm(F(np.asarray(r)))
    if not (rn < target * (1 + 1e-12)):
        rec.violation(dict(sig, oracle='returned point meets the residual tolerance'), c, {'residual': float(rn), 'target': float(target)})
    if not np.array_equal(x0, x0c):
        rec.violation(dict(sig, oracle='starting vector not modified'), c, {})
