"""C05 — every transfer between nested spline spaces preserves the function.

Oracle: exact knot insertion (Boehm, refmodels.bsp) gives the reference refinement matrices for
knot-vector pairs; for hierarchical spaces both sides of every transfer are expanded in the
finest tensor-product basis with reference refinement matrices (two coefficient vectors in one
basis represent the same function iff they are equal) and hierarchical splines are evaluated
through an independent evaluator.
"""
import itertools, os
import numpy as np

PROPERTY = 'C05'
LEVEL = 'exploration'
RULE = ('nested knot-vector pairs (degree 0-8, repeated knots, inserted knots coinciding with existing ones up to multiplicity p, <= 10 spans); pairs '
        '(coarse, fine) of hierarchical spaces obtained by extending a random refinement history by a further one (p 1-3, dim 1-3, disparity 1/2/inf, '
        'HB and THB, <= 5 levels), all virtual levels, all boundary faces; distinct by descriptor; non-trivial if the fine space is strictly larger')
MIN_NONTRIVIAL = {'quick': 200, 'thorough': 4000}
REQUIRED_COUNTERS = ['oracle:prolongation', 'oracle:knot_insertion', 'oracle:represent_fine', 'oracle:virtual_hierarchy', 'oracle:prolongate_to',
                     'oracle:boundary_trace', 'oracle:boundary_space_ops', 'oracle:hspline_eval', 'oracle:level_prolongators']
ASSUMPTIONS = ['uniform dyadic level meshes (as produced by make_knots/refine) for the hierarchical part', 'reference refinement matrices by Boehm knot insertion in floats']

def cases(tier, seed):
    n = {'quick': 260, 'thorough': 30000}[tier]
    for i in range(n):
        yield {'kind': 'kv', 'seed': seed, 'idx': i}
    n = {'quick': 110, 'thorough': 12000}[tier]
    for i in range(n):
        yield {'kind': 'hs', 'seed': seed, 'idx': i}

def _refmat(kv_c, p, kv_f):
    from refmodels import bsp
    M = bsp.refinement_matrix([float(t) for t in kv_c], p, [float(t) for t in kv_f])
    return np.array(M, dtype=float)

def run_case(rec, case):
    {'kv': _kv, 'hs': _hs}[case['kind']](rec, case)

def _kv(rec, case):
    from pyiga import bspline
    from refmodels import bsp
    from verif.gen import rng_for, knot_case, knots_from_case
    from verif.api import guarded
    rng = rng_for('C05k', case['seed'], case['idx'])
    kc = knot_case(rng, pmin=0, pmax=8 if case['idx'] % 3 == 0 else 4, max_spans=6)
    p = kc['p']; kva = knots_from_case(kc)
    kv = bspline.KnotVector(kva.copy(), p)
    mesh = np.unique(kva)
    # new knots: random interior points and copies of existing knots as long as the multiplicity stays <= p
    new = list(rng.uniform(kva[0], kva[-1], int(rng.integers(0, 5))))
    for t in mesh[1:-1]:
        m = int(np.count_nonzero(kva == t))
        if p - m > 0 and rng.random() < 0.5: new += [float(t)] * int(rng.integers(1, p - m + 1))
    if p == 0: new = [x for x in new if x not in set(mesh.tolist())]
    new = [float(x) for x in new if kva[0] < x < kva[-1]]
    c = dict(case, kv=kc, new=new)
    rec.case(c, nontrivial=len(new) > 0)
    sig = {'route': 'prolongation', 'coinciding': any(x in set(mesh.tolist()) for x in new)}
    ok, kvf = guarded(rec, c, dict(sig, stage='refine'), kv.refine, np.array(new))
    if not ok: return
    R = _refmat(kva, p, kvf.kv)
    ok, P = guarded(rec, c, sig, bspline.prolongation, kv, kvf)
    if ok:
        Pd = P.toarray()
        if Pd.shape != R.shape: rec.violation(dict(sig, oracle='shape'), c, {'got': list(Pd.shape), 'want': list(R.shape)})
        else:
            Cm = bsp.collocation_dense(kvf.kv.tolist(), p, [float(x) for x in bsp.greville(kvf.kv.tolist(), p)])
            cond = np.linalg.cond(Cm)
            rec.check_close('prolongation', float(np.abs(Pd - R).max()), float(1e-12 * cond + 2e-15), sig, c)
    ok, kvu = guarded(rec, c, dict(sig, stage='refine_uniform'), kv.refine)
    if ok:
        Ru = _refmat(kva, p, kvu.kv)
        ok, P = guarded(rec, c, dict(sig, pair='uniform'), bspline.prolongation, kv, kvu)
        if ok and P.shape == Ru.shape:
            rec.check_close('prolongation', float(np.abs(P.toarray() - Ru).max()), 1e-9, dict(sig, pair='uniform'), c)
    # single knot insertion, successively
    cur = kv; acc = np.eye(kv.numdofs)
    for u in new[:4]:
        ok, Pi = guarded(rec, c, dict(sig, route='knot_insertion'), bspline.knot_insertion, cur, u)
        if not ok: return
        nxt = cur.refine(np.array([u]))
        Ri = _refmat(cur.kv, p, nxt.kv)
        Pid = Pi.toarray()
        if Pid.shape != Ri.shape: rec.violation(dict(sig, route='knot_insertion', oracle='shape'), c, {}); return
        rec.check_close('knot_insertion', float(np.abs(Pid - Ri).max()), 1e-13, dict(sig, route='knot_insertion', at_existing_knot=bool(u in set(cur.kv.tolist()))), c, {'u': u})
        cur = nxt

def _tp_refine_matrix(kvs_c, kvs_f):
    """Dense Kronecker product of the reference 1D refinement matrices (axis order)."""
    M = np.ones((1, 1))
    for kc_, kf_ in zip(kvs_c, kvs_f):
        M = np.kron(M, _refmat(kc_.kv, kc_.p, kf_.kv))
    return M

def _fine_rep(hs, truncate, upto=None):
    """Reference representation of the HB basis in the finest TP basis from exact knot insertion; the THB one by
    definition of truncation.  With upto=l the virtual level-l space is represented in the level-l TP basis; its
    functions of level l are numbered active first, then deactivated (the numbering of the virtual hierarchy)."""
    L = hs.numlevels if upto is None else upto + 1
    kvsL = hs.knotvectors(L - 1)
    nL = int(np.prod([k.numdofs for k in kvsL]))
    Rk = [_tp_refine_matrix(hs.knotvectors(k), hs.knotvectors(k + 1)) for k in range(L - 1)]
    cols = []
    for k in range(L):
        idx = sorted(hs.actfun[k])
        if upto is not None and k == upto: idx = idx + sorted(hs.deactfun[k])
        nd = tuple(kv.numdofs for kv in hs.knotvectors(k))
        for f in idx:
            e = np.zeros(int(np.prod(nd))); e[np.ravel_multi_index(f, nd)] = 1.0
            for j in range(k, L - 1):
                e = Rk[j] @ e
                if truncate:
                    ndj = tuple(kv.numdofs for kv in hs.knotvectors(j + 1))
                    kill = [np.ravel_multi_index(g, ndj) for g in (set(hs.actfun[j + 1]) | set(hs.deactfun[j + 1]))]
                    if kill: e[np.array(kill)] = 0.0
            cols.append(e)
    return np.array(cols).T if cols else np.zeros((nL, 0))

def _hs(rec, case):
    from pyiga import hierarchical
    from refmodels import tp
    from verif import hgen
    from verif.gen import rng_for
    from verif.api import guarded
    rng = rng_for('C05h', case['seed'], case['idx'])
    dims = (1, 2, 2) if case['idx'] % 6 else (3,)
    desc = hgen.random_desc(rng, dims=dims, pmax=3 if 3 not in dims else 2, n0max=3 if 3 not in dims else 2, max_steps=3, max_levels=4 if 3 not in dims else 3, bd_choices=('none',))
    hs, hist = hgen.build(desc)
    desc = dict(desc, history=hist)
    c = dict(case, space=desc)
    L = hs.numlevels; n = hs.numdofs
    kvsL = hs.knotvectors(L - 1)
    nL = int(np.prod([k.numdofs for k in kvsL]))
    if nL > 1500: return
    fin = np.isfinite(hs.disparity)
    sig0 = {'dim': int(hs.dim), 'truncate': bool(hs.truncate), 'disparity_finite': bool(fin), 'levels': int(min(L, 3))}
    # ---- level prolongators of the underlying tensor-product hierarchy
    for k in range(L - 1):
        ok, Ps = guarded(rec, c, dict(sig0, route='tp_prolongation'), hs.tp_prolongation, k)
        if ok:
            for d, P in enumerate(Ps):
                R = _refmat(hs.knotvectors(k)[d].kv, hs.knotvectors(k)[d].p, hs.knotvectors(k + 1)[d].kv)
                rec.check_close('level_prolongators', float(np.abs(P.toarray() - R).max()), 1e-11, dict(sig0, route='tp_prolongation'), c)
    # ---- represent_fine against exact knot insertion (HB) / truncation by definition (THB)
    RH = _fine_rep(hs, False); RT = _fine_rep(hs, True)
    for trunc, Rref in ((False, RH), (True, RT)):
        ok, R = guarded(rec, c, dict(sig0, route='represent_fine', basis='THB' if trunc else 'HB'), hs.represent_fine, truncate=trunc)
        if ok:
            Rd = R.toarray()
            if Rd.shape != Rref.shape: rec.violation(dict(sig0, route='represent_fine', oracle='shape'), c, {}); return
            rec.check_close('represent_fine', float(np.abs(Rd - Rref).max()), 1e-11, dict(sig0, route='represent_fine', basis='THB' if trunc else 'HB'), c)
    Rown = RT if hs.truncate else RH
    # represent_fine(lv=..., rows=..., restrict=...)
    if L >= 2:
        lv = int(rng.integers(0, L))
        Rv = _fine_rep(hs, False, upto=lv)
        ok, R = guarded(rec, c, dict(sig0, route='represent_fine(lv)'), hs.represent_fine, lv=lv, truncate=False)
        if ok and R.shape == Rv.shape:
            rec.check_close('represent_fine', float(np.abs(R.toarray() - Rv).max()), 1e-11, dict(sig0, route='represent_fine(lv)'), c)
        # the truncated basis of the virtual level lv (functions of levels <= lv, truncated against everything up to lv)
        Rvt = _fine_rep(hs, True, upto=lv)
        ok, R = guarded(rec, c, dict(sig0, route='represent_fine(lv, truncate=True)'), hs.represent_fine, lv=lv, truncate=True)
        if ok:
            if R.shape != Rvt.shape: rec.violation(dict(sig0, route='represent_fine(lv, truncate=True)', oracle='shape'), c, {'got': list(R.shape), 'want': list(Rvt.shape)})
            else: rec.check_close('represent_fine', float(np.abs(R.toarray() - Rvt).max()), 1e-11, dict(sig0, route='represent_fine(lv, truncate=True)', below_finest=bool(lv < L - 1)), c)
        nlv = Rv.shape[0]
        rows = np.sort(rng.permutation(nlv)[:max(1, nlv // 3)])
        for restrict in (False, True):
            ok, R = guarded(rec, c, dict(sig0, route='represent_fine(rows)', restrict=restrict), hs.represent_fine, lv=lv, truncate=False, rows=rows, restrict=restrict)
            if ok:
                want = Rv[rows] if restrict else np.where(np.isin(np.arange(nlv), rows)[:, None], Rv, 0.0)
                if R.shape != want.shape: rec.violation(dict(sig0, route='represent_fine(rows)', oracle='shape', restrict=restrict), c, {})
                else: rec.check_close('represent_fine', float(np.abs(R.toarray() - want).max()), 1e-11, dict(sig0, route='represent_fine(rows)', restrict=restrict), c)
    # ---- evaluation of hierarchical splines equals evaluation of the finest tensor-product representation
    u = rng.standard_normal(n)
    fine = (Rown @ u).reshape(tuple(k.numdofs for k in kvsL))
    grids = [np.unique(np.concatenate((rng.uniform(0, 1, 3), [0.0, 1.0, 0.5]))) for _ in range(hs.dim)]
    k = tp.kvs_of(kvsL)
    from refmodels import nurbs
    val = tp.grid_eval(k, fine, grids); jac = nurbs.bsp_jacobian(k, fine, grids); hes = nurbs.bsp_hessian(k, fine, grids)
    F = hierarchical.HSplineFunc(hs, u.copy())
    h = 2.0 ** (L - 1) * max(kv.numspans for kv in hs.knotvectors(0))
    for name, fn, ref, sc in (('grid_eval', F.grid_eval, val, 1.0), ('grid_jacobian', F.grid_jacobian, jac, h), ('grid_hessian', F.grid_hessian, hes, h * h)):
        ok, g = guarded(rec, c, dict(sig0, route='HSplineFunc.' + name), fn, grids)
        if ok:
            g = np.asarray(g)
            if g.shape != ref.shape: rec.violation(dict(sig0, route='HSplineFunc.' + name, oracle='shape'), c, {'got': list(g.shape), 'want': list(ref.shape)})
            else: rec.check_close('hspline_eval', float(np.abs(g - ref).max()), 1e-10 * sc * 10 * (np.abs(u).max() + 1), dict(sig0, route='HSplineFunc.' + name), c)
    pt = [float(g_[1]) for g_ in reversed(grids)]
    ok, g = guarded(rec, c, dict(sig0, route='HSplineFunc.call'), F, *pt)
    if ok: rec.check_close('hspline_eval', abs(float(np.asarray(g).ravel()[0]) - float(val[tuple([1] * hs.dim)])), 1e-10 * (np.abs(u).max() + 1), dict(sig0, route='HSplineFunc.call'), c)
    # other basis through the explicit truncate argument
    Fo = hierarchical.HSplineFunc(hs, u.copy(), truncate=not hs.truncate)
    fo = ((RH if hs.truncate else RT) @ u).reshape(fine.shape)
    ok, g = guarded(rec, c, dict(sig0, route='HSplineFunc(truncate=other).grid_eval'), Fo.grid_eval, grids)
    if ok: rec.check_close('hspline_eval', float(np.abs(np.asarray(g) - tp.grid_eval(k, fo, grids)).max()), 1e-10 * (np.abs(u).max() + 1), dict(sig0, route='HSplineFunc(truncate=other).grid_eval'), c)
    # ---- virtual hierarchy prolongators
    rec.case(c, nontrivial=L >= 2)
    for trunc in (False, True):
        sig = dict(sig0, route='virtual_hierarchy_prolongators', basis='THB' if trunc else 'HB')
        ok, Ps = guarded(rec, c, sig, hs.virtual_hierarchy_prolongators, truncate=trunc)
        if not ok: continue
        if len(Ps) != L - 1: rec.violation(dict(sig, oracle='one prolongator per level transition'), c, {}); continue
        Rfin = RT if trunc else RH
        for l in range(L - 1):
            Rvl = _fine_rep(hs, trunc, upto=l)                           # virtual level-l basis in the level-l TP basis
            up = np.eye(Rvl.shape[0])
            for j in range(l, L - 1): up = _tp_refine_matrix(hs.knotvectors(j), hs.knotvectors(j + 1)) @ up
            want = up @ Rvl                                              # the same functions in the finest TP basis
            Q = None
            for j in range(l, L - 1):
                Pj = Ps[j].toarray(); Q = Pj if Q is None else Pj @ Q
            if Q.shape != (n, Rvl.shape[1]):
                rec.violation(dict(sig, oracle='shape', from_level=l), c, {'got': list(Q.shape)}); break
            got = Rfin @ Q
            rec.check_close('virtual_hierarchy', float(np.abs(got - want).max()), 1e-10, dict(sig, from_level='0' if l == 0 else 'intermediate'), c, {'from_level': l})
    # ---- prolongation to a further refinement (acts on HB coefficients)
    desc2 = dict(desc); desc2.pop('hseed', None)
    fine_hs = hs.copy()
    rng2 = rng_for('C05h2', case['seed'], case['idx'])
    hgen.poke(fine_hs, rng2, p=0.7)        # fill whatever the copy caches before it is refined further
    extra = []
    if rng2.random() < 0.35:
        # a patch wide enough to replace coarse functions, then all of its children (and possibly theirs): the fine space gets levels
        # which hold deactivated but no (or few) active functions between a replaced function and the level that carries it
        lv0 = int(rng2.integers(0, fine_hs.numlevels))
        act = sorted(map(tuple, fine_hs.active_cells(lv0)))
        maxlv = 5 if hs.dim < 3 else 3
        if act and lv0 < maxlv - 1:
            c0 = act[int(rng2.integers(0, len(act)))]
            pm = max(int(kk.p) for kk in hs.knotvectors(0)); w = int(rng2.integers(1, pm + 3))
            block = [c_ for c_ in act if all(0 <= a_ - b_ < w for a_, b_ in zip(c_, c0))]
            cur = block; lv = lv0
            for s in range(int(rng2.integers(2, 4))):
                if not cur or lv >= maxlv - 1: break
                fine_hs.refine({lv: set(cur)}); extra.append({int(lv): [list(x) for x in cur]})
                hgen.poke(fine_hs, rng2)
                parents = set(cur); lv += 1
                cur = [c_ for c_ in sorted(map(tuple, fine_hs.active_cells(lv))) if tuple(ci // 2 for ci in c_) in parents] if lv < fine_hs.numlevels else []
    else:
      for s in range(int(rng2.integers(1, 3))):
        marks = hgen.random_marks(fine_hs, rng2, style=str(rng2.choice(['random', 'corner', 'isolated', 'multilevel', 'drill', 'interface'])), max_levels=5 if hs.dim < 3 else 3)
        if not marks: break
        fine_hs.refine({l: set(cs) for l, cs in marks.items()}); extra.append({int(l): [list(x) for x in cs] for l, cs in marks.items()})
        hgen.poke(fine_hs, rng2)
    c2 = dict(c, further=extra)
    Lf = fine_hs.numlevels
    nLf = int(np.prod([kk.numdofs for kk in fine_hs.knotvectors(Lf - 1)]))
    if extra and nLf <= 2500:
        sig = dict(sig0, route='prolongate_to', more_levels=bool(Lf > L))
        ok, P = guarded(rec, c2, sig, hs.prolongate_to, fine_hs)
        if ok:
            RHf = _fine_rep(fine_hs, False)
            up = np.eye(nL)
            for j in range(L - 1, Lf - 1): up = _tp_refine_matrix(fine_hs.knotvectors(j), fine_hs.knotvectors(j + 1)) @ up
            want = up @ RH
            Pd = P.toarray()
            if Pd.shape != (fine_hs.numdofs, n): rec.violation(dict(sig, oracle='shape'), c2, {'got': list(Pd.shape)})
            else: rec.check_close('prolongate_to', float(np.abs(RHf @ Pd - want).max()), 1e-10, sig, c2)
        if not hs.is_subspace_of(fine_hs): rec.violation(dict(sig0, route='is_subspace_of', oracle='a space is a subspace of its refinements'), c2, {})
    # ---- restriction to boundary faces
    if hs.dim >= 2:
        for ax, side in [(a_, s_) for a_ in range(hs.dim) for s_ in (0, 1)]:
            sig = dict(sig0, route='HSpace.boundary')
            ok, r = guarded(rec, c, sig, hs.boundary, (ax, side))
            if ok:
                bhs, mapping = r
                ub = u[np.asarray(mapping)]
                Rb = _fine_rep(bhs, bool(hs.truncate))
                shpL = tuple(kk.numdofs for kk in kvsL)
                face = np.take(fine, 0 if side == 0 else shpL[ax] - 1, axis=ax)
                # the boundary space may have fewer levels: lift its finest representation to the finest level of the volume space
                kb = [kk for d, kk in enumerate(kvsL) if d != ax]
                cur = Rb @ ub
                for j in range(bhs.numlevels - 1, L - 1):
                    kc_ = [kk for d, kk in enumerate(hs.knotvectors(j)) if d != ax]; kf_ = [kk for d, kk in enumerate(hs.knotvectors(j + 1)) if d != ax]
                    cur = _tp_refine_matrix(kc_, kf_) @ cur
                if cur.size != face.size: rec.violation(dict(sig, oracle='boundary space size'), c, {})
                else: rec.check_close('boundary_trace', float(np.abs(cur - face.ravel()).max()), 1e-10 * (np.abs(u).max() + 1), sig, c, {'face': [ax, side]})
                # the returned boundary space is a hierarchical space in its own right: what it computes itself (tensor-product level
                # prolongators, finest-level representation, level-wise evaluation of the trace) must describe the same trace
                sigb = dict(sig0, route='HSpace.boundary: operations of the boundary space')
                for kb_ in range(bhs.numlevels - 1):
                    okp, Pb = guarded(rec, c, dict(sigb, op='tp_prolongation'), bhs.tp_prolongation, kb_)
                    if okp:
                        for d_, P_ in enumerate(Pb):
                            kvc, kvf = bhs.knotvectors(kb_)[d_], bhs.knotvectors(kb_ + 1)[d_]
                            Rr = _refmat(kvc.kv, kvc.p, kvf.kv)
                            if P_.shape != Rr.shape: rec.violation(dict(sigb, op='tp_prolongation', oracle='shape'), c, {'got': list(P_.shape), 'want': list(Rr.shape), 'face': [ax, side]})
                            else: rec.check_close('boundary_space_ops', float(np.abs(P_.toarray() - Rr).max()), 1e-11, dict(sigb, op='tp_prolongation'), c, {'face': [ax, side]})
                okr, Rbo = guarded(rec, c, dict(sigb, op='represent_fine'), bhs.represent_fine, truncate=bool(hs.truncate))
                if okr:
                    if Rbo.shape != Rb.shape: rec.violation(dict(sigb, op='represent_fine', oracle='shape'), c, {'face': [ax, side]})
                    else: rec.check_close('boundary_space_ops', float(np.abs(Rbo.toarray() - Rb).max()), 1e-11, dict(sigb, op='represent_fine'), c, {'face': [ax, side]})
                if cur.size == face.size:
                    gb = [g_ for d, g_ in enumerate(grids) if d != ax]
                    want_tr = tp.grid_eval(tp.kvs_of(kb), face, gb)
                    okf, gtr = guarded(rec, c, dict(sigb, op='HSplineFunc.grid_eval'), lambda: hierarchical.HSplineFunc(bhs, ub.copy()).grid_eval(gb))
                    if okf:
                        gtr = np.asarray(gtr)
                        if gtr.shape != want_tr.shape: rec.violation(dict(sigb, op='HSplineFunc.grid_eval', oracle='shape'), c, {'face': [ax, side]})
                        else: rec.check_close('boundary_space_ops', float(np.abs(gtr - want_tr).max()), 1e-10 * (np.abs(u).max() + 1), dict(sigb, op='HSplineFunc.grid_eval'), c, {'face': [ax, side]})
