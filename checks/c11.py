"""C11 — relaxation and multigrid are consistent, contractive iterations.

Oracles: a pure-Python textbook Gauss-Seidel on the dense copy; fixed-point and energy-norm
oracles for the local multigrid cycle on Galerkin matrices built independently of pyiga's
hierarchical assembler (I^T A_fine I); a recording wrapper around the iteration step observes
the drivers (returned count = step calls, residual recomputed independently).
"""
import os
import numpy as np

PROPERTY = 'C11'
LEVEL = 'exploration'
RULE = ('matrices n<=40: SPD (random, 1D Galerkin), diagonally dominant nonsymmetric, general with nonzero diagonal; formats dense/CSR/CSC/COO '
        '(explicit zeros, unsorted indices, duplicate COO entries) x sweeps forward/backward/symmetric x index lists (unsorted, repeated) x '
        'iterations 1-3; hierarchical spaces from random refinement histories (dim 1-2, p 1-3, disparity inf/1/2, HB/THB, Dirichlet faces '
        'none/one/all) x strategies {new,trunc,func_supp,cell_supp} x smoothers {gs,forward_gs,backward_gs,symmetric_gs,exact}; drivers with '
        'recording step wrappers; twogrid with u0 None/list/array; distinct by descriptor; non-trivial if n >= 2')
MIN_NONTRIVIAL = {'quick': 500, 'thorough': 10000}
REQUIRED_COUNTERS = ['oracle:gs_textbook', 'oracle:gs_fixed_point', 'oracle:gs_energy', 'oracle:mg_fixed_point', 'oracle:mg_energy', 'oracle:mg_energy_operator_norm',
                     'oracle:smoothing_sets', 'oracle:driver_trace', 'oracle:twogrid']
VARIANTS = {'quick': ['plain'], 'thorough': ['plain', 'asan']}
WORKERS_SAN = 8
ASSUMPTIONS = ['hierarchical Galerkin matrices are built as I^T A_fine I from represent_fine and Kronecker tensor-product matrices (no JIT, independent of C03)',
               'fixed point and energy non-increase hold for any prolongators (Galerkin coarse operators), hence independent of the open C05 finding']

def cases(tier, seed):
    variant = os.environ.get('VERIF_VARIANT', 'plain')
    n = {'quick': 900, 'thorough': 80000}[tier]
    if variant != 'plain': n = 1500
    for i in range(n):
        yield {'kind': 'gs', 'seed': seed, 'idx': i}
    if variant != 'plain': return
    for i in range({'quick': 48, 'thorough': 4000}[tier]):
        yield {'kind': 'mg', 'seed': seed, 'idx': i}
    for i in range({'quick': 60, 'thorough': 5000}[tier]):
        yield {'kind': 'driver', 'seed': seed, 'idx': i}
    for i in range({'quick': 40, 'thorough': 3200}[tier]):
        yield {'kind': 'twogrid', 'seed': seed, 'idx': i}

def _rand_system(rng, n, flavour):
    A = rng.standard_normal((n, n))
    A[rng.random((n, n)) < 0.5] = 0.0
    if flavour == 'spd':
        A = A @ A.T + 0.5 * np.eye(n)
    elif flavour == 'dd':
        A = A + np.diag(np.abs(A).sum(axis=1) + 1.0) * rng.choice([-1.0, 1.0])
    else:
        d = rng.uniform(0.5, 2.0, n) * rng.choice([-1.0, 1.0], n)
        A[np.arange(n), np.arange(n)] = d
    return A

def _textbook_gs(A, x, b, order):
    x = x.copy(); n = len(x)
    for i in order:
        s = 0.0
        for j in range(n):
            if j != i: s += A[i, j] * x[j]
        x[i] = (b[i] - s) / A[i, i]
    return x

def run_case(rec, case):
    {'gs': _gs, 'mg': _mg, 'driver': _driver, 'twogrid': _twogrid}[case['kind']](rec, case)

def _gs(rec, case):
    import scipy.sparse, warnings
    from pyiga import solvers
    from verif.gen import rng_for
    from verif.api import guarded
    rng = rng_for('C11gs', case['seed'], case['idx'])
    n = int(rng.integers(1, 41)) if rng.random() < 0.8 else int(rng.integers(1, 6))
    flavour = str(rng.choice(['spd', 'dd', 'general']))
    A = _rand_system(rng, n, flavour)
    b = rng.standard_normal(n); x0 = rng.standard_normal(n)
    fmt = str(rng.choice(['dense', 'csr', 'csr_unsorted', 'csr_zeros', 'csc', 'coo', 'coo_dup']))
    sweep = str(rng.choice(['forward', 'backward', 'symmetric']))
    iters = int(rng.integers(1, 4))
    use_idx = bool(rng.random() < 0.5)
    idx = None
    if use_idx:
        m = int(rng.integers(1, n + 1))
        idx = rng.permutation(n)[:m] if rng.random() < 0.7 else rng.integers(0, n, size=m)
        if rng.random() < 0.3: idx = idx.tolist()
    desc = dict(case, n=n, flavour=flavour, fmt=fmt, sweep=sweep, iters=iters, indices=None if idx is None else list(map(int, idx)))
    rec.case(desc, nontrivial=n >= 2)
    sig = {'route': 'gauss_seidel', 'fmt': 'dense' if fmt == 'dense' else 'sparse', 'sweep': sweep, 'indexed': use_idx}
    if fmt == 'dense': Aop = A.copy()
    elif fmt == 'csr': Aop = scipy.sparse.csr_matrix(A)
    elif fmt == 'csr_unsorted':
        Aop = scipy.sparse.csr_matrix(A)
        for i in range(n):      # reverse the column order within each row: unsorted indices
            s, e = Aop.indptr[i], Aop.indptr[i + 1]
            Aop.indices[s:e] = Aop.indices[s:e][::-1].copy(); Aop.data[s:e] = Aop.data[s:e][::-1].copy()
        Aop.has_sorted_indices = False
    elif fmt == 'csr_zeros':
        I, J = np.nonzero(np.ones_like(A))
        Aop = scipy.sparse.csr_matrix((A[I, J], (I, J)), shape=A.shape)    # stores explicit zeros
    elif fmt == 'csc': Aop = scipy.sparse.csc_matrix(A)
    elif fmt == 'coo': Aop = scipy.sparse.coo_matrix(A)
    else:
        I, J = np.nonzero(A)
        Aop = scipy.sparse.coo_matrix((np.concatenate((0.25 * A[I, J], 0.75 * A[I, J])), (np.concatenate((I, I)), np.concatenate((J, J)))), shape=A.shape)
    base = list(range(n)) if idx is None else [int(i) for i in idx]
    def order_for(sw): return base if sw == 'forward' else base[::-1]
    ref = x0.copy()
    for _ in range(iters):
        if sweep == 'symmetric':
            ref = _textbook_gs(A, ref, b, order_for('forward')); ref = _textbook_gs(A, ref, b, order_for('backward'))
        else:
            ref = _textbook_gs(A, ref, b, order_for(sweep))
    # the iterate is updated in place: also when the caller hands in a strided view (a column of a block of vectors, every other
    # entry of a longer vector), which is what multi-right-hand-side and block solvers do
    lay = int(rng.integers(0, 3))
    if lay == 1:
        blk = np.zeros((n, 2)); blk[:, 1] = x0; blk[:, 0] = -7.0; x = blk[:, 1]
    elif lay == 2:
        blk = np.full(2 * n, -7.0); blk[::2] = x0; x = blk[::2]
    else:
        x = x0.copy()
    sig = dict(sig, x_layout=('contiguous', 'column of a block', 'strided')[lay])
    with warnings.catch_warnings():
        warnings.simplefilter('ignore')
        ok, _ = guarded(rec, desc, sig, solvers.gauss_seidel, Aop, x, b, iterations=iters, indices=idx, sweep=sweep)
    if not ok: return
    if lay == 1 and not np.all(blk[:, 0] == -7.0) or lay == 2 and not np.all(blk[1::2] == -7.0):
        rec.violation(dict(sig, oracle='entries outside the view are untouched'), desc, {}); return
    # forward error bound of one update, accumulated over the updates performed
    absA = np.abs(A); diag = np.abs(np.diag(A))
    growth = (absA.sum(axis=1) / diag).max() + 1
    scale = (np.abs(b) + absA @ np.maximum(np.abs(ref), np.abs(x0))).max() / diag.min()
    nupd = iters * len(base) * (2 if sweep == 'symmetric' else 1)
    tol = 1e-13 * scale * min(growth ** min(nupd, 40), 1e8) * (1 + nupd)
    if not np.all(np.isfinite(ref)) or np.abs(ref).max() > 1e12:
        return
    rec.check_close('gs_textbook', float(np.abs(x - ref).max()), float(tol), sig, desc, {'first_diff_index': int(np.argmax(np.abs(x - ref)))})
    # exact solution is a fixed point
    if np.linalg.cond(A) < 1e8:
        xs = np.linalg.solve(A, b); y = xs.copy()
        with warnings.catch_warnings():
            warnings.simplefilter('ignore')
            ok, _ = guarded(rec, desc, dict(sig, oracle_input='exact solution'), solvers.gauss_seidel, Aop, y, b, iterations=iters, indices=idx, sweep=sweep)
        if ok:
            # in exact arithmetic nothing moves; in floating point the first update moves x_i by r_i/a_ii with
            # r = b - A x* (rounding level), and later updates can amplify that by the row growth factor
            r0 = np.abs(b - A @ xs).max() + 64 * 2.2e-16 * (absA @ np.abs(xs) + np.abs(b)).max()
            amp = (1 + nupd) if flavour in ('spd', 'dd') else min(growth ** min(nupd, 40), 1e30) * (1 + nupd)
            fptol = 8 * r0 / diag.min() * amp * (np.linalg.cond(A) if flavour == 'spd' else 1.0)
            if fptol < 1e-6 * (np.abs(xs).max() + 1):          # otherwise the bound is vacuous: count as trivial
                rec.check_close('gs_fixed_point', float(np.abs(y - xs).max()), float(fptol), sig, desc)
        if flavour == 'spd':
            e0 = x0 - xs; e1 = x - xs
            E0 = float(e0 @ A @ e0); E1 = float(e1 @ A @ e1)
            rec.count('oracle:gs_energy')
            rec.ratio('gs_energy', E1, E0 * (1 + 1e-10) + 1e-20)
            if not (E1 <= E0 * (1 + 1e-10) + 1e-18 * (1 + E0)):
                rec.violation(dict(sig, oracle='energy-norm error does not increase (SPD)'), desc, {'before': E0, 'after': E1})

# ---- hierarchical multigrid ----------------------------------------------------------------------
def _h_problem(rng, want_dirichlet=None):
    """A hierarchical space with an SPD Galerkin matrix built independently of the hierarchical assembler."""
    import scipy.sparse
    from pyiga import assemble
    from verif import hgen
    desc = hgen.random_desc(rng, dims=(1, 2, 2), pmax=3, n0max=4, max_steps=3, max_levels=4,
                            bd_choices=('empty', 'one', 'all') if want_dirichlet is None else want_dirichlet)
    # adaptive-loop style: the space is queried between refinement steps (what a solve-estimate-mark-refine loop does), so that
    # anything cached by the queries has to be invalidated by the following refine()
    queried = []
    qrng = np.random.default_rng(int(desc['hseed']) % (2 ** 31))
    def on_step(h, marks):
        if qrng.random() < 0.6:
            st = ['new', 'trunc', 'func_supp', 'cell_supp'][int(qrng.integers(0, 4))]
            try: h.indices_to_smooth(st); queried.append(st)
            except Exception: queried.append('raised:' + st)
        else: queried.append(None)
    hs, hist = hgen.build(desc, on_step=on_step)
    desc = dict(desc, history=hist, queries_between_steps=queried)
    L = hs.numlevels
    kvs = hs.knotvectors(L - 1)
    Af = assemble.stiffness(kvs) + assemble.mass(kvs)
    I = hs.represent_fine()
    A = (I.T @ Af @ I).tocsr()
    return desc, hs, A

def _ref_dirichlet_and_new(hs):
    """Reference sets in the virtual hierarchy numbering, from the space's function sets and index arithmetic."""
    L = hs.numlevels
    bds = hs.bdspecs or []
    def on_bd(l, f):
        nd = hs.mesh(l).numdofs
        return any(f[ax] == (0 if side == 0 else nd[ax] - 1) for (ax, side) in bds)
    out = []
    for lv in range(L):
        numbering = []
        for l in range(lv):
            numbering += [(l, f) for f in sorted(hs.actfun[l])]
        numbering += [(lv, f) for f in sorted(hs.actfun[lv])] + [(lv, f) for f in sorted(hs.deactfun[lv])]
        dirs = {k for k, (l, f) in enumerate(numbering) if on_bd(l, f)}
        new = {k for k, (l, f) in enumerate(numbering) if l == lv} - dirs
        out.append((len(numbering), dirs, new))
    return out

def _mg(rec, case):
    from pyiga import solvers
    from verif.gen import rng_for
    from verif.api import guarded
    rng = rng_for('C11mg', case['seed'], case['idx'])
    desc, hs, A = _h_problem(rng)
    strategy = ['new', 'trunc', 'func_supp', 'cell_supp'][case['idx'] % 4]
    smoother = ['gs', 'forward_gs', 'backward_gs', 'symmetric_gs', 'exact'][(case['idx'] // 4) % 5]
    steps = int(rng.integers(1, 3))
    c = dict(case, space=desc, strategy=strategy, smoother=smoother, smooth_steps=steps)
    n = hs.numdofs
    rec.case(c, nontrivial=hs.numlevels >= 2)
    sig = {'route': 'local_mg_step', 'strategy': strategy, 'smoother': smoother, 'truncate': bool(hs.truncate)}
    ok, inds = guarded(rec, c, dict(sig, stage='indices_to_smooth'), hs.indices_to_smooth, strategy)
    if not ok: return
    ok, Ps = guarded(rec, c, dict(sig, stage='prolongators'), hs.virtual_hierarchy_prolongators)
    if not ok: return
    refs = _ref_dirichlet_and_new(hs)
    rec.count('oracle:smoothing_sets')
    for lv, (nlv, dirs, new) in enumerate(refs):
        got = set(int(i) for i in inds[lv])
        if got & dirs:
            rec.violation(dict(sig, oracle='smoothing set contains no Dirichlet dof'), c, {'level': lv, 'dofs': sorted(got & dirs)[:5]}); return
        if not new <= got:
            rec.violation(dict(sig, oracle='smoothing set contains the new dofs of its level'), c, {'level': lv, 'missing': sorted(new - got)[:5]}); return
        if got and (min(got) < 0 or max(got) >= nlv):
            rec.violation(dict(sig, oracle='smoothing indices in range'), c, {'level': lv}); return
    dirs = np.array(sorted(refs[-1][1]), dtype=int)
    free = np.array(sorted(set(range(n)) - set(dirs.tolist())), dtype=int)
    if len(free) == 0: return
    Ad = A.toarray()
    f = rng.standard_normal(n)
    xs = np.zeros(n); xs[dirs] = rng.standard_normal(len(dirs))
    Aff = Ad[np.ix_(free, free)]
    xs[free] = np.linalg.solve(Aff, f[free] - Ad[np.ix_(free, dirs)] @ xs[dirs])
    ok, step = guarded(rec, c, dict(sig, stage='local_mg_step'), solvers.local_mg_step, hs, A, f, Ps, inds, smoother, steps)
    if not ok: return
    ok, y = guarded(rec, c, dict(sig, stage='step(x*)'), step, xs.copy())
    if not ok: return
    cond = np.linalg.cond(Aff)
    rec.check_close('mg_fixed_point', float(np.abs(y - xs).max()), float(1e-12 * cond * (np.abs(xs).max() + 1) * hs.numlevels), sig, c)
    # energy norm of the error on the free dofs never increases (SPD, Galerkin coarse operators)
    x = xs.copy(); x[free] += rng.standard_normal(len(free))
    def energy(v):
        e = (v - xs)[free]; return float(e @ Aff @ e)
    E = energy(x)
    for it in range(2):
        ok, x2 = guarded(rec, c, dict(sig, stage='step(x)'), step, x.copy())
        if not ok: return
        if np.abs((x2 - x)[dirs]).max(initial=0.0) > 0:
            rec.violation(dict(sig, oracle='Dirichlet dofs untouched by the cycle'), c, {}); return
        E2 = energy(x2)
        rec.count('oracle:mg_energy')
        rec.ratio('mg_energy', E2, E * (1 + 1e-9) + 1e-18)
        if not (E2 <= E * (1 + 1e-9) + 1e-14 * (1 + E)):
            rec.violation(dict(sig, oracle='cycle does not increase the energy-norm error'), c, {'before': E, 'after': E2, 'iteration': it}); return
        x, E = x2, E2
    # ... for *every* error vector: the cycle is affine in x, so its error propagation matrix is observed column by column (unit errors
    # added to the exact solution) and its energy-norm operator norm |A^{1/2} E A^{-1/2}|_2 must not exceed one
    if len(free) <= 120:
        cols = []
        for j in range(len(free)):
            xj = xs.copy(); xj[free[j]] += 1.0
            ok, yj = guarded(rec, c, dict(sig, stage='step(x* + e_j)'), step, xj)
            if not ok: return
            cols.append((yj - xs)[free])
        Ep = np.array(cols).T
        Lc = np.linalg.cholesky(Aff)
        Mn = np.linalg.solve(Lc, (Lc.T @ Ep).T).T          # L^T E L^-T
        nrm = float(np.linalg.norm(Mn, 2))
        rec.count('oracle:mg_energy_operator_norm')
        rec.ratio('mg_energy_operator_norm', nrm, 1 + 1e-10 * cond)
        if not nrm <= 1 + 1e-10 * cond:
            rec.violation(dict(sig, oracle='energy-norm operator norm of the error propagation of one cycle <= 1'), c, {'norm': nrm, 'cond': float(cond)})

def _driver(rec, case):
    from pyiga import solvers
    from verif.gen import rng_for
    from verif.api import guarded
    rng = rng_for('C11dr', case['seed'], case['idx'])
    which = 'iterative_solve' if case['idx'] % 2 == 0 else 'solve_hmultigrid'
    calls = {'n': 0}
    if which == 'iterative_solve':
        n = int(rng.integers(2, 25))
        A = _rand_system(rng, n, 'spd'); f = rng.standard_normal(n)
        D = np.diag(A); omega = float(rng.uniform(0.2, 1.0)) / (np.abs(A).sum(axis=1) / D).max()
        mode = int(rng.integers(0, 3))
        def step(x):
            calls['n'] += 1
            if mode == 2: return x + 0.0            # stagnating iteration: must end at maxiter
            return x + omega * (f - A @ x) / D
        tol = 10.0 ** rng.uniform(-10, -1); maxiter = int(rng.integers(1, 400))
        act = None if rng.random() < 0.5 else np.sort(rng.permutation(n)[:int(rng.integers(1, n + 1))])
        x0 = None if rng.random() < 0.5 else rng.standard_normal(n)
        homogeneous = rng.random() < 0.08
        if homogeneous:          # the starting vector already solves the system: initial residual exactly zero
            f = np.zeros(n); x0 = None if x0 is None else np.zeros(n)
        c = dict(case, which=which, n=n, tol=tol, maxiter=maxiter, mode=mode, active=None if act is None else act.tolist(), x0=x0 is not None, homogeneous=bool(homogeneous))
        rec.case(c, nontrivial=True)
        sig = {'route': which}
        x0c = None if x0 is None else x0.copy()
        ok, r = guarded(rec, c, sig, solvers.iterative_solve, step, A, f, x0=x0c, active_dofs=act, tol=tol, maxiter=maxiter)
        if not ok: return
        x, k = r
        _check_driver(rec, c, sig, A, f, x, k, calls['n'], tol, maxiter, act, x0)
    else:
        desc, hs, A = _h_problem(rng)
        n = hs.numdofs
        f = rng.standard_normal(n) if rng.random() >= 0.08 else np.zeros(n)      # sometimes the homogeneous problem (zero initial residual)
        tol = 10.0 ** rng.uniform(-9, -2); maxiter = int(rng.integers(1, 60))
        strategy = str(rng.choice(['new', 'trunc', 'func_supp', 'cell_supp'])); smoother = str(rng.choice(['gs', 'forward_gs', 'backward_gs', 'symmetric_gs', 'exact']))
        c = dict(case, which=which, space=desc, tol=tol, maxiter=maxiter, strategy=strategy, smoother=smoother)
        rec.case(c, nontrivial=True)
        sig = {'route': which, 'strategy': strategy, 'smoother': smoother}
        # observe the driver through a recording wrapper around the step function it builds
        orig = solvers.local_mg_step
        def rec_lms(*a, **kw):
            st = orig(*a, **kw)
            def counted(x):
                calls['n'] += 1
                return st(x)
            return counted
        solvers.local_mg_step = rec_lms
        try:
            ok, r = guarded(rec, c, sig, solvers.solve_hmultigrid, hs, A, f, strategy=strategy, smoother=smoother, tol=tol, maxiter=maxiter)
        finally:
            solvers.local_mg_step = orig
        if not ok: return
        x, k = r
        refs = _ref_dirichlet_and_new(hs)
        act = np.array(sorted(set(range(n)) - refs[-1][1]), dtype=int)
        _check_driver(rec, c, sig, A.toarray(), f, x, k, calls['n'], tol, maxiter, act, None)

def _check_driver(rec, c, sig, A, f, x, k, ncalls, tol, maxiter, act, x0):
    rec.count('oracle:driver_trace')
    sl = slice(None) if act is None else act
    r0 = f if x0 is None else f - A @ x0
    res0 = float(np.linalg.norm(r0[sl])); res = float(np.linalg.norm((f - A @ x)[sl]))
    if np.isfinite(k):
        if int(k) != ncalls:
            rec.violation(dict(sig, oracle='reported iteration count = number of steps performed'), c, {'reported': int(k), 'calls': ncalls})
        if not (res < tol * res0 * (1 + 1e-9) + 1e-300):
            rec.violation(dict(sig, oracle='converged => residual reduction reached'), c, {'res/res0': res / res0 if res0 else None, 'tol': tol})
        if ncalls > maxiter:
            rec.violation(dict(sig, oracle='no more than maxiter steps'), c, {'calls': ncalls, 'maxiter': maxiter})
    else:
        if ncalls != maxiter:
            rec.violation(dict(sig, oracle='inf reported exactly at the iteration limit'), c, {'calls': ncalls, 'maxiter': maxiter})
        if res < tol * res0 * (1 - 1e-9):
            rec.violation(dict(sig, oracle='not converged reported although the residual meets the reduction'), c, {'res/res0': res / res0, 'tol': tol})

def _twogrid(rec, case):
    import io, contextlib
    from pyiga import solvers, bspline, assemble
    from verif.gen import rng_for
    from verif.api import guarded
    rng = rng_for('C11tg', case['seed'], case['idx'])
    p = int(rng.integers(1, 4)); nc = int(rng.integers(2, 7))
    kvc = bspline.make_knots(p, 0.0, 1.0, nc); kvf = kvc.refine()
    A = (assemble.bsp_stiffness_1d(kvf) + assemble.bsp_mass_1d(kvf)).tocsr()
    P = bspline.prolongation(kvc, kvf)
    n = A.shape[0]; f = rng.standard_normal(n)
    u0kind = ['none', 'list', 'array', 'zeros', 'intlist'][case['idx'] % 5]
    u0 = {'none': None, 'list': rng.standard_normal(n).tolist(), 'array': rng.standard_normal(n), 'zeros': np.zeros(n), 'intlist': [int(v) for v in rng.integers(-2, 3, n)]}[u0kind]
    tol = 10.0 ** rng.uniform(-9, -3)
    sm = solvers.GaussSeidelSmoother(sweep=str(rng.choice(['forward', 'symmetric'])))
    c = dict(case, p=p, nc=nc, u0=u0kind, tol=tol)
    rec.case(c, nontrivial=True)
    sig = {'route': 'twogrid', 'u0': u0kind}
    u0copy = None if u0 is None else np.array(u0, dtype=float)
    # the smoother is a user-supplied callable: wrap it to see the iterate after every smoothing step
    trace = []
    def sm_rec(A_, u_, f_):
        sm(A_, u_, f_); trace.append(np.array(u_, dtype=float))
    with contextlib.redirect_stdout(io.StringIO()):
        ok, u = guarded(rec, c, sig, solvers.twogrid, A, f, P, sm_rec, u0=u0, tol=tol, maxiter=500)
    if not ok: return
    rec.count('oracle:twogrid')
    res0 = np.linalg.norm(f - A @ (np.zeros(n) if u0copy is None else u0copy))
    if not trace:
        rec.violation(dict(sig, oracle='at least one smoothing step is applied'), c, {}); return
    # the driver stops when the residual after smoothing (before the last coarse-grid correction) is below tol * initial residual;
    # the returned vector is that iterate plus its coarse-grid correction (which lowers the energy-norm error, not necessarily the
    # Euclidean residual)
    upre = trace[-1]
    rpre = f - A @ upre
    if not (np.linalg.norm(rpre) <= tol * res0 * (1 + 1e-9) + 1e-14 * np.linalg.norm(f)):
        rec.violation(dict(sig, oracle='stops only when the smoothed residual is below tol times the initial residual'), c,
                      {'res/res0': float(np.linalg.norm(rpre) / res0), 'tol': tol, 'smoothing_steps_seen': len(trace)})
    Ad = A.toarray(); Pd = P.toarray()
    want = upre + Pd @ np.linalg.solve(Pd.T @ Ad @ Pd, Pd.T @ rpre)
    rec.check_close('twogrid_final_correction', float(np.abs(np.asarray(u) - want).max()), 1e-10 * np.linalg.cond(Ad) * (np.abs(want).max() + 1) * 1e-3 + 1e-12, sig, c)
    res = np.linalg.norm(f - A @ u)
    xs_ = np.linalg.solve(Ad, f)
    e_pre = upre - xs_; e_fin = np.asarray(u) - xs_
    if not (e_fin @ Ad @ e_fin <= (e_pre @ Ad @ e_pre) * (1 + 1e-8) + 1e-20):
        rec.violation(dict(sig, oracle='the coarse-grid correction does not increase the energy-norm error'), c, {})
    if isinstance(u0, np.ndarray) and not np.array_equal(u0, u0copy):
        rec.violation(dict(sig, oracle='starting vector not modified'), c, {})
