"""C14 — multipatch gluing is the equivalence closure of the joins, in any order.

Monitors: a union-find shadow fed by a recording wrapper on the real Multipatch.join_dofs; an
invariant evaluated after every join (the classes kept by the object equal the union-find classes);
after finalize the numbering and patch-to-global matrices are compared with the shadow.  Join orders
of small patch complexes are enumerated exhaustively.  Glued systems of conforming splits are
compared with the undivided system; automatic interface detection is compared with the
construction.
"""
import itertools, os
import numpy as np

PROPERTY = 'C14'
LEVEL = 'exploration'
RULE = ('all orders of the interface-join calls (plus one repeated call, random declared flips) for patch complexes 2x1, 2x2, ring of k=3..6 patches '
        'around a vertex, 3x2 (7! orders; thorough, sampled in quick), 2x2x2 (sampled orders); random conforming splits of single-patch domains '
        '(2D/3D, p 1-3, C0 lines) with glued-vs-undivided system comparison; patch permutations/re-parametrisations for automatic detection; '
        'a case is one (complex, order, flips) or one split; distinct by descriptor; non-trivial if >= 2 joins')
MIN_NONTRIVIAL = {'quick': 400, 'thorough': 6000}
REQUIRED_COUNTERS = ['hook:join_dofs', 'invariant:classes_after_join', 'oracle:numbering', 'oracle:patch_to_global', 'oracle:patch_to_global_j_global', 'oracle:split_system',
                     'oracle:detect_interfaces', 'oracle:join_boundaries_pairs']
EXHAUSTIVE = {'quick': False, 'thorough': True}
ASSUMPTIONS = ['the undivided assembly (precompiled stiffness/mass/L2 assemblers) is trusted (C01/C09)', 'declared identifications are taken from the '
               'arguments reaching join_dofs; join_boundaries is separately compared with face-dof pairs computed by index arithmetic']

class UF:
    def __init__(self): self.p = {}
    def find(self, a):
        self.p.setdefault(a, a)
        while self.p[a] != a:
            self.p[a] = self.p[self.p[a]]; a = self.p[a]
        return a
    def union(self, a, b):
        ra, rb = self.find(a), self.find(b)
        if ra != rb: self.p[ra] = rb
    def classes(self):
        out = {}
        for a in list(self.p): out.setdefault(self.find(a), set()).add(a)
        return [frozenset(c) for c in out.values() if len(c) >= 1]

# ---- abstract patch complexes: (number of patches, list of joins (p1, bd1, p2, bd2)) ---------------
def complex_grid(nx, ny):
    idx = lambda i, j: j * nx + i
    joins = []
    for j in range(ny):
        for i in range(nx):
            if i + 1 < nx: joins.append((idx(i, j), 'right', idx(i + 1, j), 'left'))
            if j + 1 < ny: joins.append((idx(i, j), 'top', idx(i, j + 1), 'bottom'))
    return nx * ny, joins, 2

def complex_ring(k):
    # k patches around a vertex; local corner (0,0) of every patch is the vertex
    return k, [(i, 'bottom', (i + 1) % k, 'left') for i in range(k)], 2

def complex_cube():
    idx = lambda i, j, k: (k * 2 + j) * 2 + i
    joins = []
    for k in range(2):
        for j in range(2):
            for i in range(2):
                if i == 0: joins.append((idx(0, j, k), 'right', idx(1, j, k), 'left'))
                if j == 0: joins.append((idx(i, 0, k), 'top', idx(i, 1, k), 'bottom'))
                if k == 0: joins.append((idx(i, j, 0), 'back', idx(i, j, 1), 'front'))
    return 8, joins, 3

COMPLEXES = {'2x1': lambda: complex_grid(2, 1), '2x2': lambda: complex_grid(2, 2), '3x2': lambda: complex_grid(3, 2),
             'ring3': lambda: complex_ring(3), 'ring4': lambda: complex_ring(4), 'ring5': lambda: complex_ring(5), 'ring6': lambda: complex_ring(6),
             '2x2x2': complex_cube}

def cases(tier, seed):
    from verif.gen import rng_for
    for name in ('2x1', '2x2', 'ring3', 'ring4', 'ring5'):
        np_, joins, dim = COMPLEXES[name]()
        orders = list(itertools.permutations(range(len(joins))))
        for oi, order in enumerate(orders):
            for rep in ([None] + list(range(len(joins))) if len(joins) <= 4 else [None, oi % len(joins)]):
                yield {'kind': 'joins', 'complex': name, 'order': list(order), 'repeat': rep, 'seed': seed, 'idx': oi}
    for name, nq, nt in (('ring6', 120, 720), ('3x2', 150, 5040), ('2x2x2', 60, 2000)):
        np_, joins, dim = COMPLEXES[name]()
        n = nq if tier == 'quick' else nt
        if name in ('ring6', '3x2') and tier == 'thorough':
            for oi, order in enumerate(itertools.permutations(range(len(joins)))):
                yield {'kind': 'joins', 'complex': name, 'order': list(order), 'repeat': None, 'seed': seed, 'idx': oi}
        else:
            for i in range(n):
                rng = rng_for('C14ord', seed, name, i)
                yield {'kind': 'joins', 'complex': name, 'order': [int(v) for v in rng.permutation(len(joins))], 'repeat': None, 'seed': seed, 'idx': i}
    for i in range({'quick': 40, 'thorough': 2400}[tier]):
        yield {'kind': 'split', 'seed': seed, 'idx': i}
    for i in range({'quick': 30, 'thorough': 1800}[tier]):
        yield {'kind': 'detect', 'seed': seed, 'idx': i}
    for i in range({'quick': 12, 'thorough': 600}[tier]):
        yield {'kind': 'detached', 'seed': seed, 'idx': i}
    if tier == 'thorough':
        yield {'kind': 'suite'}      # the repository's own tests as a further workload, run under this check's monitors

_state = {}

def setup(rec, tier):
    from pyiga import assemble
    MP = assemble.Multipatch
    if getattr(MP.join_dofs, '_verif', False): return
    orig = MP.join_dofs
    def join_dofs(self, p1, I1, p2, I2):
        rec.count('hook:join_dofs')
        sh = getattr(self, '_verif_shadow', None)
        if sh is None:
            sh = self._verif_shadow = {'uf': UF(), 'calls': []}
        I1l = [int(i) for i in I1]; I2l = [int(i) for i in I2]
        sh['calls'].append((int(p1), I1l, int(p2), I2l))
        r = orig(self, p1, I1, p2, I2)
        for a, b in zip(I1l, I2l): sh['uf'].union((int(p1), a), (int(p2), b))
        _invariant(rec, self, sh)
        return r
    join_dofs._verif = True
    MP.join_dofs = join_dofs

def _object_classes(mp):
    """Equivalence classes as the object itself represents them (via shared_per_patch)."""
    cl = {}
    for p, d in enumerate(mp.shared_per_patch):
        for i, sd in d.items(): cl.setdefault(sd, set()).add((p, int(i)))
    return cl

def _invariant(rec, mp, sh):
    rec.count('invariant:classes_after_join')
    case = _state.get('case', {})
    ref = set(c for c in sh['uf'].classes() if len(c) >= 2)
    got = set(frozenset(c) for c in _object_classes(mp).values())
    if got != ref and not sh.get('reported'):
        sh['reported'] = True
        lost = [sorted(c) for c in ref - got][:3]
        rec.violation({'route': 'join_dofs', 'oracle': 'classes after each join equal the equivalence closure of the declared identifications'},
                      dict(case, calls_so_far=len(sh['calls'])), {'expected_not_found': lost, 'n_expected': len(ref), 'n_got': len(got)})
    # the two internal tables must agree with each other
    for sd, members in enumerate(mp.shared_dofs):
        for (p, i) in members:
            if mp.shared_per_patch[p].get(i) != sd and not sh.get('reported2'):
                sh['reported2'] = True
                rec.violation({'route': 'join_dofs', 'oracle': 'shared_dofs and shared_per_patch agree'}, dict(case), {'shared_dof': sd, 'member': [p, int(i)]})

def _check_final(rec, case, sig, mp, N):
    """After finalize: numbering is a gap-free bijection onto the union-find classes; matrices are 0/1 injections."""
    sh = getattr(mp, '_verif_shadow', {'uf': UF(), 'calls': []})
    uf = sh['uf']
    allloc = [(p, i) for p in range(len(N)) for i in range(N[p])]
    for a in allloc: uf.find(a)
    classes = uf.classes()
    rec.count('oracle:numbering')
    def bad(what, **w): rec.violation(dict(sig, oracle=what), case, w)
    if mp.numdofs != len(classes):
        bad('numdofs = number of equivalence classes', numdofs=int(mp.numdofs), classes=len(classes)); return False
    g = {}
    for p in range(len(N)):
        idx = np.asarray(mp.patch_to_global_idx(p))
        if idx.shape != (N[p],): bad('patch_to_global_idx length', patch=p); return False
        for i in range(N[p]): g[(p, i)] = int(idx[i])
    if set(g.values()) != set(range(mp.numdofs)):
        bad('global numbering is onto range(numdofs) without gaps', missing=sorted(set(range(mp.numdofs)) - set(g.values()))[:5]); return False
    for c in classes:
        if len({g[a] for a in c}) != 1:
            bad('dofs connected by declared identifications share a global index', cls=sorted(c)[:4]); return False
    inv = {}
    for a, k in g.items(): inv.setdefault(k, set()).add(a)
    if set(frozenset(v) for v in inv.values()) != set(classes):
        bad('dofs with equal global index are connected by a chain of identifications'); return False
    rec.count('oracle:patch_to_global')
    for p in range(len(N)):
        X = mp.patch_to_global(p)
        Xd = X.toarray()
        # declared identifications (e.g. inconsistent flips) may glue two dofs of one patch; X^T X = I is only
        # meaningful when the identifications keep the dofs of each patch distinct
        injective = len({g[(p, i)] for i in range(N[p])}) == N[p]
        if X.shape != (mp.numdofs, N[p]) or not np.array_equal(Xd, (Xd != 0).astype(float)) or not np.array_equal(Xd.sum(axis=0), np.ones(N[p])) \
           or not np.array_equal(np.argmax(Xd, axis=0), [g[(p, i)] for i in range(N[p])]):
            bad('patch_to_global is a 0/1 matrix with exactly one entry per local dof, at its global index', patch=p); return False
        if injective and not np.array_equal(Xd.T @ Xd, np.eye(N[p])):
            bad('transpose of patch_to_global is its left inverse', patch=p); return False
        if not np.array_equal(mp.global_to_patch(p).toarray(), Xd.T):
            bad('global_to_patch is the transpose', patch=p); return False
        # j_global=True: the same matrix placed in the column block of patch p among the local dofs of all patches
        Xg = mp.patch_to_global(p, j_global=True).toarray()
        ofs = int(sum(N[:p])); tot = int(sum(N))
        want = np.zeros((mp.numdofs, tot)); want[:, ofs:ofs + N[p]] = Xd
        rec.count('oracle:patch_to_global_j_global')
        if Xg.shape != want.shape or not np.array_equal(Xg, want):
            cols = np.flatnonzero(Xg.any(axis=0)) if Xg.ndim == 2 else []
            bad('patch_to_global(p, j_global=True) is patch_to_global(p) in the column block of patch p', patch=p,
                columns_used=[int(cols.min()), int(cols.max())] if len(cols) else [], expected_block=[ofs, ofs + N[p] - 1]); return False
    # the column blocks of all patches side by side map the local dofs of all patches to the global ones: every global dof is hit
    if len(N):
        S = sum(mp.patch_to_global(p, j_global=True) for p in range(len(N))).toarray()
        if not np.array_equal(S.sum(axis=0), np.ones(int(sum(N)))) or not np.all(S.sum(axis=1) >= 1):
            bad('the j_global matrices of all patches add up to the local-to-global map'); return False
    return True

def _face_dofs(N, ax, side, flip=None):
    """Raveled dofs on a face by index arithmetic; flip reverses the order along the flagged face axes."""
    d = len(N)
    rngs = []
    fa = 0
    for k in range(d):
        if k == ax:
            rngs.append([0 if side == 0 else N[k] - 1])
        else:
            r = list(range(N[k]))
            if flip is not None and flip[fa]: r = r[::-1]
            fa += 1
            rngs.append(r)
    return [int(np.ravel_multi_index(t, N)) for t in itertools.product(*rngs)]

def run_case(rec, case):
    _state['case'] = case
    if case['kind'] == 'suite':
        from verif.suite import run_suite
        rec.case(case, nontrivial=True); run_suite(rec, 'c14', case); return
    {'joins': _joins, 'split': _split, 'detect': _detect, 'detached': _detached}[case['kind']](rec, case)

def _joins(rec, case):
    from pyiga import assemble, bspline, geometry
    from verif.gen import rng_for
    from verif.api import guarded
    npatch, joins, dim = COMPLEXES[case['complex']]()
    rng = rng_for('C14j', case['seed'], case['complex'], case['idx'])
    p = int(rng.integers(1, 4)); n = int(rng.integers(1, 3))
    kv = bspline.make_knots(p, 0.0, 1.0, n)
    kvs = dim * (kv,)
    geo = geometry.unit_square() if dim == 2 else geometry.unit_cube()
    patches = [(kvs, geo) for _ in range(npatch)]
    order = list(case['order'])
    if case.get('repeat') is not None:
        pos = int(rng.integers(0, len(order) + 1)); order.insert(pos, case['repeat'])
    flips = [tuple(bool(b) for b in rng.integers(0, 2, size=dim - 1)) if rng.random() < 0.3 else None for _ in joins]
    c = dict(case, p=p, n=n, applied_order=order, flips=[None if f is None else list(f) for f in flips])
    _state['case'] = c
    rec.case(c, nontrivial=len(order) >= 2)
    sig = {'route': 'join_boundaries', 'complex': case['complex']}
    mp = assemble.Multipatch(patches)
    N = [int(np.prod([k.numdofs for k in kvs]))] * npatch
    Nt = tuple(k.numdofs for k in kvs)
    # staged histories: a third of the cases finalize and query the object between joins (glue, look, glue further)
    staged = (case['idx'] % 3 == 1)
    sig = dict(sig, staged=staged)
    for step, j in enumerate(order):
        if staged and step > 0 and rng.random() < 0.6:
            rec.count('staged_finalize_between_joins')
            ok, _ = guarded(rec, c, dict(sig, stage='finalize'), mp.finalize)
            if not ok: return
            ok, good = guarded(rec, c, dict(sig, stage='queries'), _check_final, rec, c, sig, mp, N)
            if not ok: return
        p1, b1, p2, b2 = joins[j]
        before = len(getattr(mp, '_verif_shadow', {'calls': []})['calls'])
        ok, _ = guarded(rec, c, sig, mp.join_boundaries, p1, b1, p2, b2, flips[j])
        if not ok: return
        # the identification reaching join_dofs must pair the face dofs in order (p2 reversed along flipped axes)
        call = mp._verif_shadow['calls'][before]
        a1, s1 = bspline._parse_bdspec(b1, dim); a2, s2 = bspline._parse_bdspec(b2, dim)
        rec.count('oracle:join_boundaries_pairs')
        if call != (p1, _face_dofs(Nt, a1, s1), p2, _face_dofs(Nt, a2, s2, flips[j])):
            rec.violation(dict(sig, oracle='join_boundaries pairs the face dofs in order, second face reversed along flipped axes'), c, {'join': list(joins[j])}); return
    ok, _ = guarded(rec, c, dict(sig, stage='finalize'), mp.finalize)
    if not ok: return
    ok, good = guarded(rec, c, dict(sig, stage='queries'), _check_final, rec, c, sig, mp, N)

def _c0_space(rng, dim, pmax=3):
    """Knot vectors with multiplicity-p interior knots at the split lines (undivided space is C0 there)."""
    from pyiga import bspline
    kvs, splits = [], []
    for d in range(dim):
        p = int(rng.integers(1, pmax + 1))
        nseg = int(rng.integers(1, 4)) if dim == 2 else int(rng.integers(1, 3))
        cuts = sorted(rng.choice(np.arange(1, 8), size=nseg - 1, replace=False) / 8.0) if nseg > 1 else []
        bnds = [0.0] + [float(x) for x in cuts] + [1.0]
        kn = [0.0] * (p + 1)
        for a, b in zip(bnds[:-1], bnds[1:]):
            nin = int(rng.integers(0, 3))
            kn += sorted((a + (b - a) * rng.uniform(0.2, 0.8, nin)).tolist())
            kn += [b] * (p if b < 1.0 else p + 1)
        kvs.append(bspline.KnotVector(np.array(kn), p)); splits.append(bnds)
    return tuple(kvs), splits

def _segments(kv, bnds):
    """For each segment [a,b]: (sub knot vector array, first dof, last dof) by index arithmetic."""
    from pyiga import bspline
    p = kv.p; K = kv.kv; n = kv.numdofs
    out = []
    for a, b in zip(bnds[:-1], bnds[1:]):
        ia = 0 if a == K[0] else int(np.flatnonzero(K == a)[0]) - 1
        ib = n - 1 if b == K[-1] else int(np.flatnonzero(K == b)[0]) - 1
        inner = K[(K > a) & (K < b)]
        sub = np.concatenate(([a] * (p + 1), inner, [b] * (p + 1)))
        assert len(sub) - p - 1 == ib - ia + 1
        out.append((bspline.KnotVector(sub, p), ia, ib))
    return out

def _split_patches(rng, dim):
    from pyiga import bspline, geometry
    kvs, splits = _c0_space(rng, dim)
    N = tuple(kv.numdofs for kv in kvs)
    # random smooth-ish geometry: perturbed identity with control points on the Greville grid
    grev = [kv.greville() for kv in kvs]
    mesh = np.meshgrid(*grev, indexing='ij')
    coords = np.stack(list(reversed(mesh)), axis=-1)              # last axis: (x, y[, z]); x belongs to the LAST knot vector
    coords = coords + 0.03 * rng.standard_normal(coords.shape)
    geo = bspline.BSplineFunc(kvs, coords)
    segs = [_segments(kv, b) for kv, b in zip(kvs, splits)]
    patches, offsets = [], []
    for combo in itertools.product(*[range(len(s)) for s in segs]):
        sub = [segs[d][combo[d]] for d in range(dim)]
        sl = tuple(slice(s[1], s[2] + 1) for s in sub)
        pk = tuple(s[0] for s in sub)
        patches.append((pk, bspline.BSplineFunc(pk, coords[sl].copy())))
        offsets.append(tuple(s[1] for s in sub))
    return kvs, geo, patches, offsets, N

def _split(rec, case):
    import scipy.sparse
    from pyiga import assemble, vform, bspline
    from verif.gen import rng_for
    from verif.api import guarded
    rng = rng_for('C14s', case['seed'], case['idx'])
    dim = 2 if case['idx'] % 4 else 3
    kvs, geo, patches, offsets, N = _split_patches(rng, dim)
    c = dict(case, dim=dim, kvs=[{'p': int(k.p), 'kv': k.kv.tolist()} for k in kvs], npatches=len(patches))
    _state['case'] = c
    rec.case(c, nontrivial=len(patches) >= 2)
    sig = {'route': 'assemble_system', 'dim': dim}
    mp = assemble.Multipatch(patches)
    # declare the joins between neighbouring patches in random order (manual route)
    pid = {off: k for k, off in enumerate(offsets)}
    grid_index = {}
    # neighbours: patches whose offsets differ in exactly one direction by the segment length
    jl = []
    for k, (pk, _) in enumerate(patches):
        for d in range(dim):
            nxt = list(offsets[k]); nxt[d] = offsets[k][d] + pk[d].numdofs - 1
            if tuple(nxt) in pid and tuple(nxt) != offsets[k]:
                jl.append((k, (d, 1), pid[tuple(nxt)], (d, 0)))
    for j in rng.permutation(len(jl)) if jl else []:
        ok, _ = guarded(rec, c, sig, mp.join_boundaries, *jl[int(j)])
        if not ok: return
    ok, _ = guarded(rec, c, dict(sig, stage='finalize'), mp.finalize)
    if not ok: return
    Np = [int(np.prod([k.numdofs for k in pk])) for pk, _ in patches]
    if not _check_final(rec, c, sig, mp, Np): return
    # map multipatch dofs to dofs of the undivided space by index arithmetic
    full = -np.ones(mp.numdofs, dtype=int)
    for k, (pk, _) in enumerate(patches):
        shp = tuple(kv.numdofs for kv in pk)
        loc = np.array(list(np.ndindex(*shp)))
        fidx = np.ravel_multi_index((loc + np.array(offsets[k])).T, N)
        gidx = np.asarray(mp.patch_to_global_idx(k))
        for gi, fi in zip(gidx, fidx):
            if full[gi] >= 0 and full[gi] != fi:
                rec.violation(dict(sig, oracle='glued dofs are the same function of the undivided space'), c, {'patch': k}); return
            full[gi] = fi
    if len(set(full.tolist())) != len(full) or mp.numdofs != int(np.prod(N)):
        rec.violation(dict(sig, oracle='glued space has exactly the dofs of the undivided C0 space'), c, {'numdofs': int(mp.numdofs), 'undivided': int(np.prod(N))}); return
    cf = rng.standard_normal(dim + 1)
    f = (lambda x, y: cf[0] + cf[1] * x + cf[2] * y) if dim == 2 else (lambda x, y, z: cf[0] + cf[1] * x + cf[2] * y + cf[3] * z)
    prob = vform.stiffness_vf(dim) if rng.random() < 0.5 else vform.mass_vf(dim)
    rhs = vform.L2functional_vf(dim, physical=True)
    ok, r = guarded(rec, c, dict(sig, stage='assemble_system'), mp.assemble_system, prob, rhs, args={'f': f})
    if not ok: return
    A, b = r
    Aref = assemble.assemble(prob, kvs, geo=geo).toarray()
    bref = assemble.assemble(rhs, kvs, geo=geo, f=f).ravel()
    Ad = np.zeros_like(Aref); Ad[np.ix_(full, full)] = A.toarray()
    bd = np.zeros_like(bref); bd[full] = b
    rec.check_close('split_system', float(max(np.abs(Ad - Aref).max(), np.abs(bd - bref).max())), 1e-12 * (np.abs(Aref).max() + np.abs(bref).max() + 1), sig, c)

def _reparam(rng, kvs, geo, dim):
    """Randomly reverse/swap parameter axes of a B-spline patch; returns new (kvs, geo)."""
    from pyiga import bspline
    C = geo.coeffs; kvl = list(kvs)
    for d in range(dim):
        if rng.random() < 0.5:
            kv = kvl[d]; a, b = kv.kv[0], kv.kv[-1]
            kvl[d] = bspline.KnotVector((a + b - kv.kv)[::-1].copy(), kv.p)
            C = np.flip(C, axis=d)
    if dim == 2 and rng.random() < 0.5:
        kvl = [kvl[1], kvl[0]]; C = np.swapaxes(C, 0, 1)
    return tuple(kvl), bspline.BSplineFunc(tuple(kvl), np.ascontiguousarray(C))

def _ring_patches(rng):
    """A closed ring of k >= 2 B-spline sectors around the origin: neighbours share a radial face, and for k = 2 the two patches
    share two faces.  Control points of shared faces are computed from the same integers, so they coincide bitwise."""
    from pyiga import bspline
    k = int(rng.choice([2, 2, 3, 4])); p = int(rng.integers(1, 3)); ns = int(rng.integers(p + 1, p + 4)); nt = int(rng.integers(p + 1, p + 3))
    kv_s = bspline.make_knots(p, 0.0, 1.0, ns - p); kv_t = bspline.make_knots(p, 0.0, 1.0, nt - p)
    nang = k * (ns - 1)
    ang = [2 * np.pi * a / nang for a in range(nang)]
    rad = np.linspace(1.0, 2.0, nt) + np.concatenate(([0.0], rng.uniform(-0.1, 0.1, nt - 2), [0.0]))
    wob = 1.0 + 0.15 * rng.uniform(-1, 1, nang)           # the ring need not be circular
    out = []
    for j in range(k):
        C = np.zeros((ns, nt, 2))
        for a in range(ns):
            g = (j * (ns - 1) + a) % nang
            for b in range(nt):
                C[a, b] = (rad[b] * wob[g] * np.cos(ang[g]), rad[b] * wob[g] * np.sin(ang[g]))
        kvs = (kv_s, kv_t)
        out.append((kvs, bspline.BSplineFunc(kvs, C)))
    return out

def _detect(rec, case):
    from pyiga import assemble
    from verif.gen import rng_for
    from verif.api import guarded
    rng = rng_for('C14d', case['seed'], case['idx'])
    dim = 2 if case['idx'] % 3 else 3
    if dim == 2 and case['idx'] % 4 == 1:
        patches = _ring_patches(rng)           # pairs of patches with more than one common face
    else:
      for _ in range(20):
        kvs, geo, patches, offsets, N = _split_patches(rng, dim)
        if len(patches) >= 2: break
    perm = rng.permutation(len(patches))
    P2 = [_reparam(rng, patches[int(k)][0], patches[int(k)][1], dim) for k in perm]
    c = dict(case, dim=dim, npatches=len(P2))
    _state['case'] = c
    rec.case(c, nontrivial=len(P2) >= 2)
    sig = {'route': 'detect_interfaces', 'dim': dim}
    ok, r = guarded(rec, c, sig, assemble.detect_interfaces, P2)
    if not ok: return
    connected, intf = r
    rec.count('oracle:detect_interfaces')
    # reference by geometry: two local dofs are to be glued iff their control points coincide (conforming B-spline patches)
    def key(pt): return tuple(np.round(pt, 9))
    pos = {}
    for p, (pk, g) in enumerate(P2):
        Cf = g.coeffs.reshape(-1, g.coeffs.shape[-1])
        for i in range(Cf.shape[0]): pos.setdefault(key(Cf[i]), set()).add((p, i))
    ref = set(frozenset(v) for v in pos.values() if len(v) >= 2)
    ok, mp = guarded(rec, c, dict(sig, route='Multipatch(automatch)'), assemble.Multipatch, P2, automatch=True)
    if not ok: return
    got = set(frozenset(v) for v in _object_classes(mp).values())
    if got != ref:
        rec.violation(dict(sig, oracle='automatic detection glues exactly the geometrically coinciding dofs'), c,
                      {'missing': [sorted(s) for s in ref - got][:3], 'spurious': [sorted(s) for s in got - ref][:3], 'interfaces': repr(intf)[:300]}); return
    if not connected:
        rec.violation(dict(sig, oracle='patch graph of a conforming split is connected'), c, {})
    Np = [int(np.prod([k.numdofs for k in pk])) for pk, _ in P2]
    if mp.numdofs != sum(Np) - sum(len(s) - 1 for s in ref):
        rec.violation(dict(sig, oracle='numdofs of the automatically glued space'), c, {'numdofs': int(mp.numdofs)})
    _check_final(rec, c, sig, mp, Np)

def _detached(rec, case):
    from pyiga import assemble, bspline, geometry
    from verif.gen import rng_for
    from verif.api import guarded
    rng = rng_for('C14x', case['seed'], case['idx'])
    p = int(rng.integers(1, 4)); kv = bspline.make_knots(p, 0.0, 1.0, int(rng.integers(1, 3))); kvs = (kv, kv)
    npatch = int(rng.integers(1, 4))
    P = [(kvs, geometry.unit_square().translate((3.0 * i, 0.0))) for i in range(npatch)]
    c = dict(case, npatch=npatch, p=p)
    _state['case'] = c
    rec.case(c, nontrivial=True)
    sig = {'route': 'no_joins'}
    mp = assemble.Multipatch(P)
    if npatch >= 3 and rng.random() < 0.5:
        guarded(rec, c, sig, mp.join_boundaries, 0, 'right', 1, 'left')
    ok, _ = guarded(rec, c, dict(sig, stage='finalize'), mp.finalize)
    if ok:
        guarded(rec, c, dict(sig, stage='queries'), _check_final, rec, c, sig, mp, [kv.numdofs ** 2] * npatch)
