"""C19 — knot vectors are constructed and queried exactly.

Monitors: icontract postconditions attached from the harness to the real bspline.make_knots and
KnotVector.findspan (counted; zero evaluations => inconclusive); queries compared with their
definitions computed from the raw knot array (exact rational arithmetic for Greville points
and Spline.derivative).
"""
import os, itertools
import numpy as np
from fractions import Fraction

PROPERTY = 'C19'
LEVEL = 'exploration'
RULE = ('make_knots: exhaustive (p<=6, n<=N, mult<=max(p,1)) on [0,1] and 12 rational/decimal intervals (N=300 quick, 2000 thorough) '
        'plus random float intervals over 1e-6..1e6; queries: random open knot vectors (wild span ratios, repeated knots) with '
        'findspan at every breakpoint +-1ulp; a case is one (p, n-block, interval) or one knot vector; non-trivial if n>=2 / >=2 spans')
MIN_NONTRIVIAL = {'quick': 200, 'thorough': 1000}
REQUIRED_COUNTERS = ['contract:make_knots', 'contract:findspan', 'oracle:greville', 'oracle:refine', 'oracle:spline_derivative']
EXHAUSTIVE = {'quick': False, 'thorough': False}
ASSUMPTIONS = ['equal spacing is checked to 4 ulp of max(|a|,|b|) against the exact rational breakpoints a+k(b-a)/n',
               'icontract postconditions are attached to the module attributes bspline.make_knots and KnotVector.findspan; '
               'references bound before the attachment would bypass them (counted: contract evaluations must be > 0)']
EPS = 2.220446049250313e-16

INTERVALS = [(0.0, 1.0), (0.1, 0.7), (-1.0, 1.0), (0.0, 3.0), (1.0 / 3.0, 2.0 / 3.0), (0.3, 0.9), (-0.5, 0.25), (2.0, 2.5),
             (0.0, 0.1), (1e-3, 1.0), (-7.0, 11.0), (0.0, 2 * np.pi), (100.0, 101.0)]

_state = {}

class PostBroken(Exception):
    pass

def _mk_post(result, p, a, b, n, mult=1):
    rec = _state['rec']
    rec.count('contract:make_knots')
    kv = result.kv
    case = {'kind': 'make_knots', 'p': int(p), 'a': float(a), 'b': float(b), 'n': int(n), 'mult': int(mult)}
    def bad(what, **w):
        rec.violation({'route': 'make_knots', 'oracle': what}, case, w)
    if result.p != p:
        bad('degree')
    if np.any(np.diff(kv) < 0):
        bad('non-decreasing'); return True
    if not (np.all(kv[:p + 1] == a) and np.all(kv[-(p + 1):] == b)):
        bad('open / end points exact', first=float(kv[0]), last=float(kv[-1])); return True
    mesh = np.unique(kv)
    if len(mesh) - 1 != n or result.numspans != n:
        bad('number of non-empty spans', numspans=int(result.numspans), smallest_span=float(np.diff(mesh).min())); return True
    # equal spacing against exact rational breakpoints
    A, B = Fraction(float(a)), Fraction(float(b))
    scale = max(abs(float(a)), abs(float(b)))
    ks = range(n + 1) if n <= 64 else sorted(set([0, 1, 2, n // 3, n // 2, n - 2, n - 1, n]))
    worst = 0.0
    for k in ks:
        ex = A + (B - A) * k / n
        worst = max(worst, abs(float(Fraction(float(mesh[k])) - ex)))
    rec.ratio('make_knots_spacing', worst, 4 * EPS * scale)
    if worst > 4 * EPS * scale:
        bad('equally spaced breakpoints', err=worst)
    # multiplicities
    counts = np.array([np.count_nonzero(kv == t) for t in (mesh[1:-1] if n <= 64 else mesh[1:-1][::max(1, n // 16)])])
    if np.any(counts != mult):
        bad('interior multiplicity', counts=counts[:8].tolist())
    if len(kv) != 2 * (p + 1) + mult * (n - 1) or result.numdofs != p + 1 + mult * (n - 1):
        bad('numdofs = p+1+mult(n-1)', numdofs=int(result.numdofs))
    return True

def _fs_post(self, u, result):
    rec = _state['rec']
    rec.count('contract:findspan')
    kv = self.kv; i = int(result)
    n = len(kv) - self.p - 1
    ok = (self.p <= i < n) and kv[i] < kv[i + 1] and ((kv[i] <= u < kv[i + 1]) or (u == kv[-1] and kv[i + 1] == kv[-1]))
    if not ok:
        rec.violation({'route': 'findspan', 'oracle': 'kv[i] <= u < kv[i+1], non-empty, last span at right end'},
                      {'kind': 'findspan', 'p': int(self.p), 'kv': kv.tolist(), 'u': float(u)}, {'span': i})
    return True

def setup(rec, tier):
    import icontract
    from pyiga import bspline
    _state['rec'] = rec
    if not getattr(bspline.make_knots, '_verif', False):
        f = icontract.ensure(_mk_post, error=PostBroken)(bspline.make_knots)
        f._verif = True
        bspline.make_knots = f
        g = icontract.ensure(_fs_post, error=PostBroken)(bspline.KnotVector.findspan)
        g._verif = True
        bspline.KnotVector.findspan = g

def cases(tier, seed):
    from verif.gen import rng_for, knot_case
    N = {'quick': 300, 'thorough': 10000}[tier]
    blk = 50
    for (a, b) in INTERVALS:
        for p in range(0, 7):
            for n0 in range(1, N + 1, blk):
                yield {'kind': 'make_knots_block', 'p': p, 'a': a, 'b': b, 'n0': n0, 'n1': min(N, n0 + blk - 1)}
    nr = {'quick': 300, 'thorough': 30000}[tier]
    for i in range(nr):
        rng = rng_for('C19iv', seed, i)
        mag = 10.0 ** rng.uniform(-6, 6)
        a = float(rng.uniform(-1, 1) * mag)
        b = float(a + 10.0 ** rng.uniform(-6, 6) * rng.uniform(0.1, 1))
        p = int(rng.integers(0, 7)); n = int(rng.integers(1, 400)); mult = int(rng.integers(1, max(p, 1) + 1))
        yield {'kind': 'make_knots_one', 'p': p, 'a': a, 'b': b, 'n': n, 'mult': mult}
    nq = {'quick': 250, 'thorough': 25000}[tier]
    for i in range(nq):
        rng = rng_for('C19kv', seed, i)
        kc = knot_case(rng, pmin=0, pmax=6, max_spans=9, wild=(i % 2 == 0), a=float(rng.uniform(-3, 0)), b=float(rng.uniform(0.5, 4)))
        kc['kind'] = 'queries'; kc['idx'] = i; kc['seed'] = seed
        yield kc
    if tier == 'thorough':
        yield {'kind': 'suite'}      # the repository's own tests as a further workload, run under this check's monitors

def run_case(rec, case):
    from pyiga import bspline
    from verif.api import guarded
    kind = case['kind']
    if kind == 'suite':
        from verif.suite import run_suite
        rec.case(case, nontrivial=True); run_suite(rec, 'c19', case); return
    if kind == 'make_knots_block':
        p, a, b = case['p'], case['a'], case['b']
        rec.case(case, nontrivial=True)
        for n in range(case['n0'], case['n1'] + 1):
            for mult in range(1, max(p, 1) + 1):
                c1 = {'kind': 'make_knots_one', 'p': p, 'a': a, 'b': b, 'n': n, 'mult': mult}
                guarded(rec, c1, {'route': 'make_knots'}, bspline.make_knots, p, a, b, n, mult)
        return
    if kind in ('make_knots_one', 'make_knots'):
        rec.case(case, nontrivial=case['n'] >= 2)
        guarded(rec, case, {'route': 'make_knots'}, bspline.make_knots, case['p'], case['a'], case['b'], case['n'], case['mult'])
        return
    if kind == 'findspan':
        kv = bspline.KnotVector(np.array(case['kv']), case['p'])
        rec.case(case); kv.findspan(case['u']); return
    _queries(rec, case)

def _queries(rec, kc):
    from pyiga import bspline, spline
    from refmodels import bsp
    from verif.gen import knots_from_case, rng_for
    from verif.api import guarded
    kvarr = knots_from_case(kc); p = kc['p']
    kv = bspline.KnotVector(kvarr.copy(), p)
    n = kv.numdofs
    rec.case({'p': p, 'breaks': kc['breaks'], 'mults': kc['mults']}, nontrivial=len(kc['breaks']) > 2)
    sig = {'route': 'queries'}
    def bad(what, **w):
        rec.violation(dict(sig, oracle=what), kc, w)
    mesh = np.array(sorted(set(kvarr.tolist())))
    # findspan at every breakpoint and its neighbours (postcondition fires inside)
    pts = []
    for t in mesh:
        for x in (t, np.nextafter(t, -np.inf), np.nextafter(t, np.inf)):
            if kvarr[0] <= x <= kvarr[-1]: pts.append(float(x))
    pts += rng_for('C19pts', kc['seed'], kc['idx']).uniform(kvarr[0], kvarr[-1], 8).tolist()
    for x in pts:
        ok, s = guarded(rec, kc, dict(sig, route='findspan'), kv.findspan, x)
        if ok:
            ref = bsp.find_span(kvarr.tolist(), p, x)
            rec.count('oracle:findspan_ref')
            if s != ref:
                bad('findspan equals reference span', x=x, got=int(s), ref=int(ref))
    # mesh / numspans / numdofs / support queries
    rec.count('oracle:mesh')
    if not np.array_equal(kv.mesh, mesh): bad('mesh = unique knots')
    if kv.numspans != len(mesh) - 1: bad('numspans')
    if kv.numdofs != len(kvarr) - p - 1: bad('numdofs')
    if kv.support() != (kvarr[0], kvarr[-1]): bad('support()')
    msi = np.asarray(kv.mesh_support_idx_all())
    mspan = np.asarray(kv.mesh_span_indices())
    refspan = np.array([i for i in range(len(kvarr) - 1) if kvarr[i] != kvarr[i + 1]])
    if not np.array_equal(mspan, refspan): bad('mesh_span_indices', got=mspan.tolist(), ref=refspan.tolist())
    for j in range(n):
        lo, hi = kvarr[j], kvarr[j + p + 1]
        if kv.support(j) != (lo, hi): bad('support(j)', j=j)
        if kv.support_idx(j) != (j, j + p + 1): bad('support_idx(j)', j=j)
        ml, mh = kv.mesh_support_idx(j)
        if mesh[ml] != lo or mesh[mh] != hi or (msi[j, 0], msi[j, 1]) != (ml, mh):
            bad('mesh_support_idx consistent with support', j=j)
    # every span index maps to a first-active function whose support contains the span
    for k in mspan:
        fa = kv.first_active(int(k))
        if fa != k - p: bad('first_active')
    # Greville points: exact knot averages within 4 ulp and inside the domain
    ok, g = guarded(rec, kc, dict(sig, route='greville'), kv.greville)
    if ok:
        kvF = bsp.to_frac(kvarr)
        gF = bsp.greville(kvF, p)
        scale = max(abs(kvarr[0]), abs(kvarr[-1]))
        err = max(abs(float(Fraction(float(x)) - y)) for x, y in zip(g, gF))
        rec.check_close('greville', err, 4 * max(p, 1) * EPS * scale, dict(sig, route='greville'), kc)
        if len(g) != n or np.any(g < kvarr[0]) or np.any(g > kvarr[-1]):
            bad('greville inside domain, one per function')
    # refine: uniform halves every span; refine(new) is the sorted multiset union
    ok, kr = guarded(rec, kc, dict(sig, route='refine'), kv.refine)
    if ok:
        rec.count('oracle:refine')
        mids = (mesh[1:] + mesh[:-1]) / 2
        ref = np.sort(np.concatenate((kvarr, mids)))
        if kr.p != p or not np.array_equal(kr.kv, ref) or kr.numspans != 2 * kv.numspans:
            bad('uniform refinement halves every span')
    rng = rng_for('C19ref', kc['seed'], kc['idx'])
    new = np.concatenate((rng.uniform(kvarr[0], kvarr[-1], int(rng.integers(0, 5))), rng.choice(mesh, size=int(rng.integers(0, 3)))))
    ok, kr = guarded(rec, kc, dict(sig, route='refine_new'), kv.refine, new)
    if ok:
        rec.count('oracle:refine')
        if not np.array_equal(kr.kv, np.sort(np.concatenate((kvarr, new)))) or kr.p != p:
            bad('refine(new_knots) = sorted union')
        if not np.array_equal(kv.kv, kvarr): bad('refine does not modify the original')
    # equality: reflexive, symmetric
    rec.count('oracle:eq')
    if not (kv == kv) or not (kv == kv.copy()): bad('== reflexive')
    others = [bspline.KnotVector(kvarr.copy(), p + 1), bspline.KnotVector(kvarr[1:-1].copy(), max(p - 1, 0)),
              bspline.KnotVector(kvarr * (1 + 1e-8 * rng.uniform(0.2, 3.0)) + 1e-8 * rng.uniform(0.2, 3.0), p),
              bspline.KnotVector(kvarr + np.concatenate((np.zeros(len(kvarr) - p - 1), np.full(p + 1, 1e-8 * rng.uniform(0.5, 2.5) * (1 + abs(kvarr[-1]))))), p)]
    # pairs at the edge of the comparison tolerance (a knot moved by just over the absolute tolerance, where a one-sided relative
    # tolerance would accept the pair in one order only); the oracle is symmetry itself, the construction only aims the workload
    for j in (0, len(kvarr) - 1):
        a_ = float(kvarr[j]); d0 = (1e-8 + 1e-8 * abs(a_))
        for fac in (1 + 0.5e-8, 1 + 0.25e-8, 1 - 0.5e-8):
            kb = kvarr.copy(); sel = (kvarr == a_); kb[sel] = a_ + (d0 * fac if j else -d0 * fac)
            others.append(bspline.KnotVector(kb, p))
    rec.count('oracle:eq_borderline', 6)
    for o in others:
        if (kv == o) != (o == kv):
            bad('== symmetric', a=kvarr.tolist(), b=o.kv.tolist(), ab=bool(kv == o), ba=bool(o == kv))
    # Spline.derivative equals the pointwise derivative (exact reference), at knots right-continuous
    if p >= 1:
        coef = rng.standard_normal(n)
        ok, ds = guarded(rec, kc, dict(sig, route='spline_derivative'), lambda: spline.Spline(kv, coef).derivative())
        if ok:
            xs = np.concatenate((rng.uniform(kvarr[0], kvarr[-1], 12), mesh))
            kvl = kvarr.tolist()
            dkv = ds.kv.kv.tolist(); dp = ds.kv.p
            worst = 0.0; tolw = 1.0
            for x in xs:
                span, D, B = bsp.basis_derivs(kvl, p, float(x), 1, with_bound=True)
                ref = float(np.dot(coef[span - p:span + 1], D[1])); bnd = float(np.dot(np.abs(coef[span - p:span + 1]), B[1]))
                sp2, D2 = bsp.basis_derivs(dkv, dp, float(x), 0)
                got = float(np.dot(ds.coeffs[sp2 - dp:sp2 + 1], D2[0]))
                tol = 256 * (p + 1) * EPS * bnd + 1e-200
                if abs(got - ref) / tol > worst / tolw:
                    worst, tolw = abs(got - ref), tol
            rec.check_close('spline_derivative', worst, tolw, dict(sig, route='spline_derivative'), kc)
            if ds.kv.p != p - 1 or len(ds.coeffs) != n - 1: bad('derivative spline degree/size')
