"""C07 — geometry maps evaluate consistently on every route and constructions are exact.

Oracle: an independent tensor-product B-spline/NURBS evaluator (refmodels.tp / refmodels.nurbs with
the quotient rule written out) is ground truth for every evaluation route; geometry operations
are compared pointwise with their definitions; operands are fingerprinted before and after every
operation (immutability).
"""
import itertools
import numpy as np

PROPERTY = 'C07'
LEVEL = 'exploration'
RULE = ('random tensor-product B-spline/NURBS functions: sdim 1-3, mixed degrees 1-3, 1-3 spans with repeated knots, scalar/vector/matrix '
        'coefficients, positive random weights x points (interior, knots, boundary; single, grids, scattered arrays of shape (), (n,), (n,m)) '
        'x all routes (call, grid_eval, pointwise_eval, grid_jacobian, pointwise_jacobian, grid_hessian) x all bdspecs (names and pairs) x '
        'operations (translate, scale, rotate_2d, apply_matrix, tensor_product, outer_sum/product, cylinderize, [], as_nurbs, as_vector, '
        'copy, support, find_inverse) and constructors (arcs for alpha in (0,2pi], circle, semicircle, disk, annulus, unit cube, identity, '
        'line segment); distinct by descriptor; non-trivial if the function has >= 2 coefficients')
MIN_NONTRIVIAL = {'quick': 800, 'thorough': 12000}
REQUIRED_COUNTERS = ['oracle:grid_eval', 'oracle:pointwise_eval', 'oracle:call', 'oracle:grid_jacobian', 'oracle:pointwise_jacobian',
                     'oracle:grid_hessian', 'oracle:boundary', 'oracle:operation', 'oracle:immutable', 'oracle:circle', 'oracle:user_composed']
ASSUMPTIONS = ['refmodels evaluators (Cox-de Boor by definition, float mode) are the ground truth', 'tolerance 1e-11 x magnitude of the terms involved']

KINDS = ['routes', 'routes', 'routes', 'ops', 'ops', 'constructors', 'user']

def cases(tier, seed):
    n = {'quick': 1400, 'thorough': 150000}[tier]
    for i in range(n):
        yield {'kind': KINDS[i % len(KINDS)], 'seed': seed, 'idx': i}

def _rand_func(rng, sdim=None, nurbs=None, out=None, pmax=3, vector_dim=None):
    from pyiga import bspline, geometry
    from verif.gen import knot_case, make_kv
    if sdim is None: sdim = int(rng.choice([1, 2, 2, 3]))
    kcs = [knot_case(rng, pmin=1, pmax=pmax, max_spans=3) for _ in range(sdim)]
    kvs = tuple(make_kv(k) for k in kcs)
    N = tuple(kv.numdofs for kv in kvs)
    if nurbs is None: nurbs = bool(rng.integers(0, 2))
    if out is None:
        out = [(), (1,), (2,), (3,), (2, 2)][int(rng.integers(0, 5))]
        if nurbs and len(out) == 2: out = (2,)
    if vector_dim is not None: out = (vector_dim,)
    C = rng.standard_normal(N + out)
    desc = {'sdim': sdim, 'kvs': kcs, 'nurbs': nurbs, 'out': list(out)}
    if nurbs:
        W = rng.uniform(0.5, 2.0, N)
        f = geometry.NurbsFunc(kvs, C.copy(), W.copy())
        pre = np.concatenate(((C * W.reshape(N + (1,) * len(out))).reshape(N + (out or (1,))), W[..., None]), axis=-1)
        return f, desc, kvs, pre, True
    if rng.random() < 0.15:
        # integer coefficient arrays (control points typed in by hand): results are real-valued all the same
        Ci = rng.integers(-6, 7, size=N + out)
        desc['integer_coeffs'] = True
        return bspline.BSplineFunc(kvs, Ci.copy()), desc, kvs, Ci.astype(float), False
    return bspline.BSplineFunc(kvs, C.copy()), desc, kvs, C, False

def _fingerprint(f):
    parts = []
    if hasattr(f, 'coeffs'): parts.append(np.asarray(f.coeffs).tobytes()); parts.append(repr(np.asarray(f.coeffs).shape))
    if hasattr(f, 'kvs'): parts += [kv.kv.tobytes() + bytes([kv.p]) for kv in f.kvs]
    parts.append(repr(getattr(f, '_support_override', None)))
    return hash(tuple(parts))

def _ref_all(kvs, data, is_nurbs, out, grids):
    from refmodels import tp, nurbs
    k = tp.kvs_of(kvs)
    if is_nurbs:
        return nurbs.nurbs_all(k, data, grids, scalar=(len(out) == 0))
    val = tp.grid_eval(k, data, grids)
    jac = nurbs.bsp_jacobian(k, data, grids)
    hes = nurbs.bsp_hessian(k, data, grids) if len(out) <= 1 else None
    return val, jac, hes

def _grids(rng, kvs, npts=3):
    g = []
    for kv in kvs:
        a, b = kv.kv[0], kv.kv[-1]
        pts = list(rng.uniform(a, b, npts)) + [a, b] + [float(t) for t in np.unique(kv.kv)[1:-1][:1]]
        g.append(np.array(sorted(set(pts))))
    return g

def run_case(rec, case):
    {'routes': _routes, 'ops': _ops, 'constructors': _constructors, 'user': _user}[case['kind']](rec, case)

def _close(rec, name, got, ref, sig, case, scale=None, tol=1e-11):
    got = np.asarray(got, dtype=float); ref = np.asarray(ref, dtype=float)
    if got.shape != ref.shape:
        rec.count('oracle:' + name)
        rec.violation(dict(sig, oracle=name + ': shape'), case, {'got': list(got.shape), 'want': list(ref.shape)}); return False
    sc = (np.abs(ref).max(initial=0.0) + 1.0) if scale is None else scale
    return rec.check_close(name, float(np.abs(got - ref).max(initial=0.0)), tol * sc, sig, case)

def _routes(rec, case):
    from verif.gen import rng_for
    from verif.api import guarded
    rng = rng_for('C07r', case['seed'], case['idx'])
    f, desc, kvs, data, isn = _rand_func(rng)
    sdim = desc['sdim']; out = tuple(desc['out'])
    c = dict(case, func=desc)
    rec.case(c, nontrivial=int(np.prod([kv.numdofs for kv in kvs])) >= 2)
    sig = {'kind': 'routes', 'sdim': sdim, 'nurbs': isn, 'out': 'scalar' if not out else ('vector' if len(out) == 1 else 'matrix')}
    grids = _grids(rng, kvs)
    val, jac, hes = _ref_all(kvs, data, isn, out, grids)
    dscale = float(np.abs(data).max() + 1)
    if f.output_shape() != out:
        rec.violation(dict(sig, oracle='output_shape'), c, {'got': list(f.output_shape())}); return
    if f.sdim != sdim: rec.violation(dict(sig, oracle='sdim'), c, {})
    fp = _fingerprint(f)
    ok, g = guarded(rec, c, dict(sig, route='grid_eval'), f.grid_eval, grids)
    if ok: _close(rec, 'grid_eval', g, val, dict(sig, route='grid_eval'), c, dscale)
    ok, g = guarded(rec, c, dict(sig, route='grid_jacobian'), f.grid_jacobian, grids)
    hscale = dscale * max(1.0, max(1.0 / np.diff(np.unique(kv.kv)).min() for kv in kvs))
    if ok: _close(rec, 'grid_jacobian', g, jac, dict(sig, route='grid_jacobian'), c, hscale * 10)
    if hes is not None:
        ok, g = guarded(rec, c, dict(sig, route='grid_hessian'), f.grid_hessian, grids)
        if ok: _close(rec, 'grid_hessian', g, hes, dict(sig, route='grid_hessian'), c, hscale ** 2 * 100)
    # scattered points (xyz order): arrays of shape (n,), (n,m) and 0-d
    mesh = np.meshgrid(*grids, indexing='ij')
    flat = [m.ravel() for m in mesh]                      # axis order
    pts_xyz = [flat[sdim - 1 - d] for d in range(sdim)]    # x first
    vflat = val.reshape((-1,) + val.shape[sdim:]); jflat = jac.reshape((-1,) + jac.shape[sdim:])
    perm = rng.permutation(len(flat[0]))
    for shape_kind in ('1d', '2d', '0d'):
        if shape_kind == '1d': sel = perm
        elif shape_kind == '2d':
            m = (len(perm) // 2) * 2
            if m < 2: continue
            sel = perm[:m].reshape(2, m // 2)
        else: sel = perm[0]
        P = [np.asarray(p[sel]) for p in pts_xyz]
        if shape_kind == '2d':
            # the same coordinates in other memory layouts: Fortran order, a transposed view, a strided view (the values are what counts)
            lay = int(rng.integers(0, 4))
            if lay == 1: P = [np.asfortranarray(a) for a in P]
            elif lay == 2: P = [np.ascontiguousarray(a.T).T for a in P]
            elif lay == 3: P = [np.asfortranarray(a) if k_ % 2 == 0 else np.repeat(a, 2, axis=1)[:, ::2] for k_, a in enumerate(P)]
            shape_kind = '2d' if lay == 0 else '2d_layout%d' % lay
        s2 = dict(sig, route='pointwise_eval', pts=shape_kind)
        ok, g = guarded(rec, c, s2, f.pointwise_eval, P)
        if ok: _close(rec, 'pointwise_eval', g, vflat[sel], s2, c, dscale)
        s2 = dict(sig, route='pointwise_jacobian', pts=shape_kind)
        ok, g = guarded(rec, c, s2, f.pointwise_jacobian, P)
        if ok: _close(rec, 'pointwise_jacobian', g, jflat[sel], s2, c, hscale * 10)
    # single-point call f(x, y, z) and mixed scalar/array call
    for k in perm[:3]:
        xyz = [float(p[k]) for p in pts_xyz]
        s2 = dict(sig, route='call')
        ok, g = guarded(rec, c, s2, f, *xyz)
        if ok:
            g = np.asarray(g)
            _close(rec, 'call', g.reshape(vflat[k].shape) if g.size == vflat[k].size else g, vflat[k], s2, c, dscale)
    if sdim >= 2:
        # f(x_array, y_scalar, ...) evaluates on the grid spanned by the array arguments
        xs = grids[sdim - 1]; others = [float(g_[0]) for g_ in grids[:sdim - 1]]
        args = [xs] + list(reversed(others))
        s2 = dict(sig, route='call_mixed')
        ok, g = guarded(rec, c, s2, f, *args)
        if ok:
            refm = val[tuple([0] * (sdim - 1))]
            _close(rec, 'call', g, refm, s2, c, dscale)
    # boundaries: trace equals restriction of the reference
    names = {(sdim - 1, 0): 'left', (sdim - 1, 1): 'right', (sdim - 2, 0): 'bottom', (sdim - 2, 1): 'top', (sdim - 3, 0): 'front', (sdim - 3, 1): 'back'}
    for ax in range(sdim):
        for side in (0, 1):
            for spec in ((ax, side), names.get((ax, side))):
                if spec is None: continue
                if sdim == 1: continue
                s2 = dict(sig, route='boundary', named=isinstance(spec, str))
                ok, bf = guarded(rec, c, s2, f.boundary, spec)
                if not ok: continue
                bg = [g_ for k, g_ in enumerate(grids) if k != ax]
                ok, g = guarded(rec, c, dict(s2, stage='grid_eval'), bf.grid_eval, bg)
                if ok:
                    refb = np.take(val, 0 if side == 0 else -1, axis=ax)
                    _close(rec, 'boundary', g, refb, s2, c, dscale)
                if bf.sdim != sdim - 1 or bf.dim != f.dim:
                    rec.violation(dict(s2, oracle='boundary sdim/dim'), c, {})
    rec.count('oracle:immutable')
    if _fingerprint(f) != fp:
        rec.violation(dict(sig, oracle='evaluation does not alter the function object'), c, {})

def _ops(rec, case):
    from pyiga import geometry, bspline
    from verif.gen import rng_for
    from verif.api import guarded
    rng = rng_for('C07o', case['seed'], case['idx'])
    opsl = ['translate', 'scale', 'scale_vec', 'rotate_2d', 'apply_matrix', 'tensor_product', 'outer_sum', 'outer_product', 'cylinderize',
            'getitem', 'as_nurbs', 'as_vector', 'copy', 'support', 'find_inverse', 'bounding_box', 'boundary_restricted']
    op = opsl[(case['idx'] // len(KINDS)) % len(opsl)]
    sig = {'kind': 'ops', 'op': op}
    def ev(F, grids):
        return np.asarray(F.grid_eval(grids), dtype=float)
    def check(name, F, grids, ref, c, operands):
        fps = [_fingerprint(o) for o in operands]
        ok, g = guarded(rec, c, dict(sig, stage='grid_eval'), ev, F, grids)
        if ok: _close(rec, 'operation', g, ref, sig, c)
        rec.count('oracle:immutable')
        for o, fp in zip(operands, fps):
            if _fingerprint(o) != fp: rec.violation(dict(sig, oracle='operation does not alter its operand'), c, {})
    if op in ('translate', 'scale', 'scale_vec', 'rotate_2d', 'apply_matrix', 'getitem', 'as_nurbs', 'copy', 'support', 'boundary_restricted'):
        d = 2 if op == 'rotate_2d' else int(rng.integers(1, 4))
        f, desc, kvs, data, isn = _rand_func(rng, vector_dim=d)
        c = dict(case, op=op, func=desc)
        rec.case(c, nontrivial=True)
        sig.update(nurbs=isn, sdim=desc['sdim'])
        grids = _grids(rng, kvs)
        val, _, _ = _ref_all(kvs, data, isn, (d,), grids)
        fp = _fingerprint(f)
        if op == 'translate':
            off = rng.standard_normal(d); ok, F = guarded(rec, c, sig, f.translate, off); ref = val + off
        elif op == 'scale':
            s = float(rng.uniform(-2, 2)); ok, F = guarded(rec, c, sig, f.scale, s); ref = val * s
        elif op == 'scale_vec':
            s = rng.uniform(-2, 2, d); ok, F = guarded(rec, c, sig, f.scale, s); ref = val * s
        elif op == 'rotate_2d':
            a = float(rng.uniform(-np.pi, np.pi)); ok, F = guarded(rec, c, sig, f.rotate_2d, a)
            R = np.array([[np.cos(a), -np.sin(a)], [np.sin(a), np.cos(a)]]); ref = val @ R.T
        elif op == 'apply_matrix':
            m = int(rng.integers(1, 4)); A = rng.standard_normal((m, d)); ok, F = guarded(rec, c, sig, f.apply_matrix, A); ref = val @ A.T
        elif op == 'getitem':
            I = [int(rng.integers(0, d)), slice(0, max(1, d - 1)), slice(None), [int(i) for i in rng.integers(0, d, size=2)], -1, slice(None, None, -1)][int(rng.integers(0, 6))]
            c['index'] = repr(I); ok, F = guarded(rec, c, sig, lambda: f[I]); ref = val[..., I]
        elif op == 'as_nurbs':
            ok, F = guarded(rec, c, sig, f.as_nurbs); ref = val
            if ok and not isinstance(F, geometry.NurbsFunc): rec.violation(dict(sig, oracle='as_nurbs returns a NurbsFunc'), c, {})
        elif op == 'copy':
            ok, F = guarded(rec, c, sig, f.copy); ref = val
            if ok:
                F.coeffs[...] += 1        # modifying the copy must not affect the original
                if _fingerprint(f) != fp: rec.violation(dict(sig, oracle='copy is independent of the original'), c, {})
                F.coeffs[...] -= 1
        elif op == 'support':
            F = f.copy() if hasattr(f, 'copy') else f
            new = tuple((kv.kv[0] + 0.25 * (kv.kv[-1] - kv.kv[0]), kv.kv[-1] - 0.25 * (kv.kv[-1] - kv.kv[0])) for kv in kvs)
            F.support = new; ok = True; ref = val
            if tuple(map(tuple, F.support)) != new: rec.violation(dict(sig, oracle='support restriction is reported'), c, {})
            if tuple(map(tuple, f.support)) != tuple((kv.kv[0], kv.kv[-1]) for kv in kvs): rec.violation(dict(sig, oracle='restricting a copy leaves the original support'), c, {})
        else:   # boundary of a support-restricted function: evaluated on the restricted face
            if desc['sdim'] == 1: return
            F0 = f.copy()
            # every end of every interval is either kept or moved inwards (at least one is moved): strips, half patches, interior boxes
            mv = rng.random((len(kvs), 2)) < 0.5
            if not mv.any(): mv[int(rng.integers(0, len(kvs))), int(rng.integers(0, 2))] = True
            new = tuple((float(kv.kv[0] + (0.25 * (kv.kv[-1] - kv.kv[0]) if mv[k_, 0] else 0.0)), float(kv.kv[-1] - (0.125 * (kv.kv[-1] - kv.kv[0]) if mv[k_, 1] else 0.0)))
                        for k_, kv in enumerate(kvs))
            F0.support = new
            ax = int(rng.integers(0, desc['sdim'])); side = int(rng.integers(0, 2))
            sig = dict(sig, normal_end_moved=bool(mv[ax, side]), tangential_moved=bool(np.delete(mv, ax, axis=0).any()))
            ok, F = guarded(rec, c, sig, F0.boundary, (ax, side))
            if ok:
                # the boundary lives on the face of the restricted support: its own support is the restricted box without the normal axis
                want_supp = tuple(iv for k_, iv in enumerate(new) if k_ != ax)
                got_supp = tuple(tuple(float(t) for t in iv) for iv in F.support)
                rec.count('oracle:boundary_support')
                if got_supp != want_supp: rec.violation(dict(sig, oracle='support of the boundary = restricted support without the normal axis'), c, {'got': got_supp, 'want': want_supp, 'face': [ax, side]})
                grids2 = [np.linspace(lo, hi, 3) for (lo, hi) in new]
                fixed = new[ax][side]; g2 = list(grids2); g2[ax] = np.array([fixed])
                v2, _, _ = _ref_all(kvs, data, isn, (d,), g2)
                ref = np.take(v2, 0, axis=ax); grids = [g_ for k, g_ in enumerate(grids2) if k != ax]
                # single point call as well
                pt = [float(g_[1]) for g_ in grids]
                okc, vv = guarded(rec, c, dict(sig, stage='call'), F, *reversed(pt))
                if okc: _close(rec, 'operation', np.asarray(vv).ravel(), ref[tuple([1] * len(grids))].ravel(), dict(sig, stage='call'), c)
        if ok: check(op, F, grids, ref, c, [f])
        return
    if op in ('tensor_product', 'outer_sum', 'outer_product', 'cylinderize'):
        f1, d1, kv1, dat1, n1 = _rand_func(rng, sdim=int(rng.integers(1, 3)), vector_dim=int(rng.integers(1, 3)) if op == 'tensor_product' else 2)
        f2, d2, kv2, dat2, n2 = _rand_func(rng, sdim=1, vector_dim=int(rng.integers(1, 3)) if op == 'tensor_product' else 2)
        c = dict(case, op=op, f1=d1, f2=d2)
        rec.case(c, nontrivial=True)
        sig.update(nurbs=bool(n1 or n2))
        g1 = _grids(rng, kv1); g2 = _grids(rng, kv2)
        v1, _, _ = _ref_all(kv1, dat1, n1, tuple(d1['out']), g1); v2, _, _ = _ref_all(kv2, dat2, n2, tuple(d2['out']), g2)
        s1 = v1.shape[:len(kv1)]; s2 = v2.shape[:len(kv2)]
        V1 = v1.reshape(s1 + (1,) * len(s2) + v1.shape[len(kv1):]); V2 = v2.reshape((1,) * len(s1) + s2 + v2.shape[len(kv2):])
        if op == 'outer_sum':
            ok, F = guarded(rec, c, sig, geometry.outer_sum, f1, f2); ref = V1 + V2
        elif op == 'outer_product':
            ok, F = guarded(rec, c, sig, geometry.outer_product, f1, f2); ref = V1 * V2
        elif op == 'tensor_product':
            ok, F = guarded(rec, c, sig, geometry.tensor_product, f1, f2)
            # G(x,y) = G2(x) x G1(y): components of G2 (the x function = last axes) come first
            B1 = np.broadcast_to(V1, s1 + s2 + V1.shape[-1:]); B2 = np.broadcast_to(V2, s1 + s2 + V2.shape[-1:])
            ref = np.concatenate((B2, B1), axis=-1)
        else:
            if n1: return
            z0, z1 = float(rng.uniform(-1, 0)), float(rng.uniform(0.5, 2)); sup = (0.0, float(rng.uniform(0.5, 2)))
            ok, F = guarded(rec, c, sig, f1.cylinderize, z0, z1, sup)
            g2 = [np.linspace(sup[0], sup[1], 4)]
            zz = z0 + (z1 - z0) * (g2[0] - sup[0]) / (sup[1] - sup[0])
            # new axis is the FIRST parametric axis and the LAST output component
            B1 = np.broadcast_to(v1[None], (4,) + v1.shape); Z = np.broadcast_to(zz.reshape((4,) + (1,) * (v1.ndim - 1) + (1,)), (4,) + v1.shape[:-1] + (1,))
            ref = np.concatenate((B1, Z), axis=-1)
            if ok: check(op, F, g2 + g1, ref, c, [f1])
            return
        if ok:
            check(op, F, g1 + g2, ref, c, [f1, f2])
            if F.sdim != f1.sdim + f2.sdim: rec.violation(dict(sig, oracle='sdim adds up'), c, {})
        return
    if op == 'as_vector':
        f, desc, kvs, data, isn = _rand_func(rng, out=())
        c = dict(case, op=op, func=desc); rec.case(c, nontrivial=True)
        grids = _grids(rng, kvs); val, _, _ = _ref_all(kvs, data, isn, (), grids)
        ok, F = guarded(rec, c, sig, f.as_vector)
        if ok:
            check(op, F, grids, val[..., None], c, [f])
            if not F.is_vector(): rec.violation(dict(sig, oracle='as_vector gives a vector function'), c, {})
        return
    if op in ('find_inverse', 'bounding_box'):
        dim = int(rng.integers(1, 4))
        kv = bspline.make_knots(int(rng.integers(1, 3)), 0.0, 1.0, int(rng.integers(1, 3)))
        kvs = dim * (kv,)
        gre = [k.greville() for k in kvs]
        coords = np.stack(list(reversed(np.meshgrid(*gre, indexing='ij'))), axis=-1) + 0.02 * rng.standard_normal((kv.numdofs,) * dim + (dim,))
        G = bspline.BSplineFunc(kvs, coords)
        c = dict(case, op=op, dim=dim); rec.case(c, nontrivial=True)
        if op == 'find_inverse':
            xi = rng.uniform(0.1, 0.9, dim)
            x = np.asarray(G(*xi), dtype=float).ravel()
            ok, r = guarded(rec, c, sig, G.find_inverse, x)
            if ok:
                back = np.asarray(G(*r), dtype=float).ravel()
                rec.check_close('operation', float(np.abs(back - x).max()), 1e-6, dict(sig, oracle='G(find_inverse(x)) = x'), c)
        else:
            ok, bb = guarded(rec, c, sig, G.bounding_box)
            if ok:
                corners = np.array([np.asarray(G(*cc), dtype=float).ravel() for cc in itertools.product(*[(0.0, 1.0)] * dim)])
                refbb = [(corners[:, k].min(), corners[:, k].max()) for k in range(dim)]
                rec.check_close('operation', float(np.abs(np.array(bb) - np.array(refbb)).max()), 1e-12, dict(sig, oracle='bounding box of the corners'), c)
        return

def _constructors(rec, case):
    from pyiga import geometry
    from verif.gen import rng_for
    from verif.api import guarded
    rng = rng_for('C07c', case['seed'], case['idx'])
    which = ['circular_arc', 'circular_arc', 'circle', 'semicircle', 'disk', 'quarter_annulus', 'unit_cube', 'identity', 'line_segment', 'arc_n'][(case['idx'] // len(KINDS)) % 10]
    sig = {'kind': 'constructors', 'which': which}
    c = dict(case, which=which)
    t = np.linspace(0, 1, 41)
    def on_circle(G, r, alpha, c):
        P = np.asarray(G.grid_eval([t]), dtype=float)
        rad = np.hypot(P[:, 0], P[:, 1])
        rec.check_close('circle', float(np.abs(rad - r).max()), 1e-13 * r * 10, dict(sig, oracle='points lie on the circle of radius r'), c)
        ang = np.unwrap(np.arctan2(P[:, 1], P[:, 0]))
        if np.any(np.diff(ang) <= 0): rec.violation(dict(sig, oracle='counterclockwise, monotone angle'), c, {})
        rec.check_close('circle', float(max(abs(ang[0]), abs(ang[-1] - alpha))), 1e-12 * 10, dict(sig, oracle='starts on the positive x axis and sweeps the angle alpha'), c)
    if which in ('circular_arc', 'arc_n'):
        alpha = float(rng.uniform(0.05, 2 * np.pi)) if rng.random() < 0.8 else float(rng.choice([np.pi, 2 * np.pi, np.pi / 2]))
        r = float(10.0 ** rng.uniform(-2, 2))
        c.update(alpha=alpha, r=r); rec.case(c, nontrivial=True)
        if which == 'circular_arc':
            ok, G = guarded(rec, c, sig, geometry.circular_arc, alpha, r)
            if ok: on_circle(G, r, alpha, c)
        else:
            for fn, amax in ((geometry.circular_arc_3pt, np.pi), (geometry.circular_arc_5pt, 2 * np.pi), (geometry.circular_arc_7pt, 2 * np.pi * 1.4)):
                if alpha < amax * 0.98:
                    ok, G = guarded(rec, c, dict(sig, fn=fn.__name__), fn, alpha, r)
                    if ok: on_circle(G, r, alpha, c)
    elif which in ('circle', 'semicircle'):
        r = float(10.0 ** rng.uniform(-2, 2)); c.update(r=r); rec.case(c, nontrivial=True)
        ok, G = guarded(rec, c, sig, getattr(geometry, which), r)
        if ok: on_circle(G, r, 2 * np.pi if which == 'circle' else np.pi, c)
    elif which == 'disk':
        r = float(10.0 ** rng.uniform(-1, 1)); c.update(r=r); rec.case(c, nontrivial=True)
        ok, G = guarded(rec, c, sig, geometry.disk, r)
        if ok:
            worst = 0.0
            for bd in ('left', 'right', 'bottom', 'top'):
                P = np.asarray(G.boundary(bd).grid_eval([t]), dtype=float)
                worst = max(worst, float(np.abs(np.hypot(P[:, 0], P[:, 1]) - r).max()))
            rec.check_close('circle', worst, 1e-12 * r, dict(sig, oracle='boundary of the disk lies on the circle'), c)
            Pi = np.asarray(G.grid_eval([t[1:-1:4], t[1:-1:4]]), dtype=float)
            if np.any(np.hypot(Pi[..., 0], Pi[..., 1]) > r * (1 + 1e-12)): rec.violation(dict(sig, oracle='interior inside the disk'), c, {})
    elif which == 'quarter_annulus':
        r1 = float(rng.uniform(0.2, 2)); r2 = r1 + float(rng.uniform(0.2, 2)); c.update(r1=r1, r2=r2); rec.case(c, nontrivial=True)
        ok, G = guarded(rec, c, sig, geometry.quarter_annulus, r1, r2)
        if ok:
            P = np.asarray(G.grid_eval([t, t]), dtype=float)      # axes (y-param angular, x-param radial)
            rad = np.hypot(P[..., 0], P[..., 1])
            rec.check_close('circle', float(np.abs(rad - (r1 + t[None, :] * (r2 - r1))).max()), 1e-13 * r2 * 10, dict(sig, oracle='radius r1 + x (r2-r1)'), c)
            B = np.asarray(G.boundary('bottom').grid_eval([t]), dtype=float); T = np.asarray(G.boundary('top').grid_eval([t]), dtype=float)
            rec.check_close('circle', float(max(np.abs(B[:, 1]).max(), np.abs(T[:, 0]).max())), 1e-13 * r2, dict(sig, oracle='bottom on the x axis, top on the y axis'), c)
    elif which in ('unit_cube', 'identity'):
        dim = int(rng.integers(1, 4)); c.update(dim=dim); rec.case(c, nontrivial=True)
        if which == 'unit_cube':
            ni = int(rng.integers(1, 4)); ok, G = guarded(rec, c, sig, geometry.unit_cube, dim, ni); ext = [(0.0, 1.0)] * dim
        else:
            ext = [tuple(sorted(rng.uniform(-2, 2, 2).tolist())) for _ in range(dim)]
            ext = [(a, b if b > a + 0.1 else a + 0.5) for a, b in ext]
            ok, G = guarded(rec, c, sig, geometry.identity, ext)
        if ok:
            grids = [np.linspace(a, b, 4) for (a, b) in ext]
            P = np.asarray(G.grid_eval(grids), dtype=float)
            mesh = np.meshgrid(*grids, indexing='ij')
            ref = np.stack(list(reversed(mesh)), axis=-1)            # identity: G(x,y,z) = (x,y,z), x = last axis
            rec.count('oracle:operation')
            _close(rec, 'operation', P, ref, dict(sig, oracle='identity map with axes in xyz order'), c)
            if tuple(map(tuple, G.support)) != tuple(map(tuple, ext)): rec.violation(dict(sig, oracle='support = extents'), c, {})
    else:
        d = int(rng.integers(1, 4)); x0 = rng.standard_normal(d); x1 = rng.standard_normal(d); sup = (float(rng.uniform(-1, 0)), float(rng.uniform(0.5, 2))); ni = int(rng.integers(1, 4))
        c.update(d=d); rec.case(c, nontrivial=True)
        ok, G = guarded(rec, c, sig, geometry.line_segment, x0 if d > 1 else float(x0[0]), x1 if d > 1 else float(x1[0]), sup, ni)
        if ok:
            s = np.linspace(sup[0], sup[1], 7); lam = (s - sup[0]) / (sup[1] - sup[0])
            ref = (1 - lam)[:, None] * x0 + lam[:, None] * x1
            _close(rec, 'operation', np.asarray(G.grid_eval([s])).reshape(ref.shape), ref, dict(sig, oracle='line from x0 to x1 over the support'), c)

def _user(rec, case):
    from pyiga import geometry, bspline
    from verif.gen import rng_for
    from verif.api import guarded
    rng = rng_for('C07u', case['seed'], case['idx'])
    sdim = int(rng.integers(1, 4)); dim = int(rng.integers(1, 4))
    A = rng.standard_normal((dim, sdim)); b = rng.standard_normal(dim); q = rng.standard_normal(dim) * 0.3
    def fun(*x):   # xyz order, vectorised
        X = np.broadcast_arrays(*x)
        return tuple(b[i] + sum(A[i, d] * X[d] for d in range(sdim)) + q[i] * X[0] * X[-1] for i in range(dim))
    def jacf(*x):
        X = np.broadcast_arrays(*x)
        rows = []
        for i in range(dim):
            row = []
            for d in range(sdim):
                v = A[i, d] + 0 * X[0]
                if d == 0: v = v + q[i] * X[-1]
                if d == sdim - 1: v = v + q[i] * X[0]
                row.append(v)
            rows.append(np.stack(row, axis=-1))
        return np.stack(rows, axis=-2)
    sup = tuple((float(rng.uniform(-1, 0)), float(rng.uniform(0.5, 1.5))) for _ in range(sdim))
    c = dict(case, sdim=sdim, dim=dim); rec.case(c, nontrivial=True)
    sig = {'kind': 'user', 'sdim': sdim}
    ok, U = guarded(rec, c, dict(sig, route='UserFunction'), geometry.UserFunction, fun, sup, None, jacf)
    if not ok: return
    grids = [np.linspace(lo, hi, 3) for (lo, hi) in sup]
    mesh = list(reversed(np.meshgrid(*grids, indexing='ij')))       # xyz order
    ref = np.stack(fun(*mesh), axis=-1); refj = jacf(*mesh)
    rec.count('oracle:user_composed')
    ok, g = guarded(rec, c, dict(sig, route='UserFunction.grid_eval'), U.grid_eval, grids)
    if ok: _close(rec, 'user_composed', g, ref, dict(sig, route='UserFunction.grid_eval'), c)
    ok, g = guarded(rec, c, dict(sig, route='UserFunction.grid_jacobian'), U.grid_jacobian, grids)
    if ok: _close(rec, 'user_composed', g, refj, dict(sig, route='UserFunction.grid_jacobian'), c)
    pt = [float(g_[1]) for g_ in reversed(grids)]
    ok, g = guarded(rec, c, dict(sig, route='UserFunction.call'), U, *pt)
    if ok: _close(rec, 'user_composed', np.asarray(g).ravel(), ref[tuple([1] * sdim)].ravel(), dict(sig, route='UserFunction.call'), c)
    if U.sdim != sdim or U.dim != dim: rec.violation(dict(sig, oracle='UserFunction sdim/dim'), c, {'dim': repr(U.dim)})
    # boundary restriction of a user function
    if sdim >= 2:
        ax = int(rng.integers(0, sdim)); side = int(rng.integers(0, 2))
        ok, Bf = guarded(rec, c, dict(sig, route='_BoundaryFunction'), U.boundary, (ax, side))
        if ok:
            bg = [g_ for k, g_ in enumerate(grids) if k != ax]
            refb = np.take(ref, 0 if side == 0 else -1, axis=ax)
            ok2, g = guarded(rec, c, dict(sig, route='_BoundaryFunction.grid_eval'), Bf.grid_eval, bg)
            if ok2: _close(rec, 'user_composed', g, refb, dict(sig, route='_BoundaryFunction.grid_eval'), c)
            ptb = [float(g_[1]) for g_ in reversed(bg)]
            ok2, g = guarded(rec, c, dict(sig, route='_BoundaryFunction.call'), Bf, *ptb)
            if ok2: _close(rec, 'user_composed', np.asarray(g).ravel(), refb[tuple([1] * (sdim - 1))].ravel(), dict(sig, route='_BoundaryFunction.call'), c)
            ok2, g = guarded(rec, c, dict(sig, route='_BoundaryFunction.grid_jacobian'), Bf.grid_jacobian, bg)
            if ok2:
                rj = np.take(refj, 0 if side == 0 else -1, axis=ax)
                col = sdim - 1 - ax
                rj = np.concatenate((rj[..., :col], rj[..., col + 1:]), axis=-1)
                _close(rec, 'user_composed', g, rj, dict(sig, route='_BoundaryFunction.grid_jacobian'), c)
    # composition geo2(geo1(x)) with a spline inner map into the support of the outer one
    if sdim <= 2:
        kv = bspline.make_knots(2, 0.0, 1.0, 2); kvs = sdim * (kv,)
        gre = [k.greville() for k in kvs]
        inner_c = np.stack(list(reversed(np.meshgrid(*gre, indexing='ij'))), axis=-1) * 0.8 + 0.1 + 0.02 * rng.standard_normal((kv.numdofs,) * sdim + (sdim,))
        g1 = bspline.BSplineFunc(kvs, inner_c)
        o_kv = bspline.make_knots(2, 0.0, 1.0, 3); okvs = sdim * (o_kv,)
        oc = rng.standard_normal(tuple(k.numdofs for k in okvs) + (dim,))
        g2 = bspline.BSplineFunc(okvs, oc) if rng.random() < 0.5 else geometry.NurbsFunc(okvs, oc.copy(), rng.uniform(0.5, 2, tuple(k.numdofs for k in okvs)))
        ok, Cf = guarded(rec, c, dict(sig, route='ComposedFunction'), geometry.ComposedFunction, g2, g1)
        if ok:
            gg = [np.linspace(0.05, 0.95, 3)] * sdim
            inner = np.asarray(g1.grid_eval(gg), dtype=float)
            pts = [inner[..., d] for d in range(sdim)]
            refc = np.asarray(g2.pointwise_eval(pts), dtype=float)
            ok2, g = guarded(rec, c, dict(sig, route='ComposedFunction.grid_eval'), Cf.grid_eval, gg)
            if ok2: _close(rec, 'user_composed', g, refc, dict(sig, route='ComposedFunction.grid_eval'), c)
            ok2, g = guarded(rec, c, dict(sig, route='ComposedFunction.grid_jacobian'), Cf.grid_jacobian, gg)
            if ok2:
                # chain rule with central differences of the composed values as an independent check
                h = 1e-6; num = np.zeros(refc.shape + (sdim,))
                for j in range(sdim):
                    ax = sdim - 1 - j
                    gp = [x.copy() for x in gg]; gm = [x.copy() for x in gg]; gp[ax] = gp[ax] + h; gm[ax] = gm[ax] - h
                    vp = np.asarray(g2.pointwise_eval([np.asarray(g1.grid_eval(gp))[..., d] for d in range(sdim)])); vm = np.asarray(g2.pointwise_eval([np.asarray(g1.grid_eval(gm))[..., d] for d in range(sdim)]))
                    num[..., j] = (vp - vm) / (2 * h)
                _close(rec, 'user_composed', g, num, dict(sig, route='ComposedFunction.grid_jacobian'), c, tol=1e-5 * (np.abs(oc).max() + 1) * 50)
