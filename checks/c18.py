"""C18 — low-rank tensor formats are faithful to the full tensor they represent.

Monitor: history + executable model.  Every tensor object carries a dense numpy shadow; random
operation sequences (length <= 8) are applied to both and compared after each step, so a failure
is localised to the step.  Approximation guarantees are checked against the requested tolerances.
"""
import os
import numpy as np

PROPERTY = 'C18'
LEVEL = 'exploration'
RULE = ('random operation sequences of length <= 8 over {copy, neg, +, -, [] (ints, negative ints, stepped/negative slices, one index '
        'list, missing trailing axes, all-scalar), squeeze, nway_prod/apply_tprod (None placeholders, fewer operators), norm, ravel, '
        'orthogonalize, compress, truncate, from_tensor, join_tucker_bases, pad} on canonical/Tucker/sum/product tensors of order 1-4 '
        '(singleton axes, rank-0 terms) and {+,-,neg,*,@,T,kron,slice,asmatrix} on Kronecker-rank operators; hosvd, aca/aca_lr/aca_3d on '
        'exact rank-r inputs, grou/gta error histories, TensorGenerator index expressions; distinct by (kind, seed); non-trivial if the '
        'sequence has >= 2 steps or the tensor >= 2 entries')
MIN_NONTRIVIAL = {'quick': 800, 'thorough': 20000}
REQUIRED_COUNTERS = ['oracle:step', 'oracle:getitem', 'oracle:compress', 'oracle:hosvd', 'oracle:aca', 'oracle:greedy_history',
                     'oracle:generator', 'oracle:operator', 'oracle:modek', 'oracle:greedy_rank_limit']
VARIANTS = {'quick': ['plain'], 'thorough': ['plain', 'asan']}
WORKERS_SAN = 8
ASSUMPTIONS = ['dense numpy arrays are the executable model', 'numpy.random is seeded per case because aca/als draw random restarts',
               'index expressions use at most one index list (numpy and outer-product semantics coincide there)']

KINDS = ['seq', 'seq', 'seq', 'seq', 'operator', 'compress', 'hosvd', 'aca', 'greedy', 'generator', 'modek', 'greedy_tucker']

def cases(tier, seed):
    variant = os.environ.get('VERIF_VARIANT', 'plain')
    n = {'quick': 1600, 'thorough': 300000}[tier]
    if variant != 'plain': n = 1500
    for i in range(n):
        yield {'kind': KINDS[i % len(KINDS)], 'seed': seed, 'idx': i}

def _rand_shape(rng, dmax=4, nmax=5):
    d = int(rng.integers(1, dmax + 1))
    return tuple(int(1 if rng.random() < 0.2 else rng.integers(2, nmax + 1)) for _ in range(d))

def _rand_index(rng, shape, allow_list=True):
    """A numpy-compatible index expression (at most one list) and whether all entries are scalars."""
    d = len(shape)
    nidx = d if rng.random() < 0.7 else int(rng.integers(0, d + 1))
    I = []; used_list = False
    for k in range(nidx):
        n = shape[k]; z = rng.random()
        if z < 0.35:
            I.append(int(rng.integers(-n, n)))
        elif z < 0.8 or used_list or not allow_list:
            a = [None, int(rng.integers(-n, n))][int(rng.integers(0, 2))]
            b = [None, int(rng.integers(-n, n + 1))][int(rng.integers(0, 2))]
            s = [None, 1, 2, -1, -2][int(rng.integers(0, 5))]
            I.append(slice(a, b, s))
        else:
            used_list = True
            I.append([int(v) for v in rng.integers(-n, n, size=int(rng.integers(1, 4)))])
    if used_list:
        # a list next to scalar indices triggers numpy's advanced-indexing transposition, where numpy
        # itself departs from per-axis selection: keep a single advanced index per expression
        I = [(slice(i, i + 1 if i != -1 else None)) if not isinstance(i, (slice, list)) else i for i in I]
    if nidx == 1 and rng.random() < 0.5:
        return I[0], (not isinstance(I[0], (slice, list)) and d == 1)
    return tuple(I), (nidx == d and all(not isinstance(i, (slice, list)) for i in I))

def _ref_index(A, I):
    """Reference for T[I]: axis-by-axis (outer) selection, scalar axes removed.  Coincides with numpy
    wherever numpy's result does not depend on its advanced-indexing transposition quirk."""
    if not isinstance(I, tuple): I = (I,)
    out = A
    for k in reversed(range(len(I))):
        ik = I[k]
        if isinstance(ik, slice):
            sl = [slice(None)] * out.ndim; sl[k] = ik
            out = out[tuple(sl)]
        elif isinstance(ik, list):
            out = np.take(out, ik, axis=k)
        else:
            if not (-A.shape[k] <= ik < A.shape[k]): raise IndexError
            out = np.take(out, ik, axis=k)
    return out

def _mk(rng, kind, shape):
    from pyiga import tensor
    d = len(shape)
    if kind == 'canonical':
        R = int(rng.integers(0, 4))
        Xs = tuple(rng.standard_normal((n, R)) for n in shape)
        T = tensor.CanonicalTensor(Xs)
        A = np.zeros(shape)
        for r in range(R):
            t = Xs[0][:, r]
            for X in Xs[1:]: t = np.multiply.outer(t, X[:, r])
            A = A + t
        return T, A
    if kind == 'tucker':
        Rs = tuple(int(rng.integers(1, 4)) for _ in shape)
        Us = tuple(rng.standard_normal((n, r)) for n, r in zip(shape, Rs)); X = rng.standard_normal(Rs)
        A = X
        for k in range(d):
            A = np.moveaxis(np.tensordot(Us[k], A, axes=([1], [k])), 0, k)
        return tensor.TuckerTensor(Us, X), A
    if kind == 'sum':
        parts = [_mk(rng, str(rng.choice(['canonical', 'tucker', 'dense'])), shape) for _ in range(int(rng.integers(1, 4)))]
        return tensor.TensorSum(*[p[0] for p in parts]), sum(p[1] for p in parts)
    if kind == 'prod':
        if d == 1:
            return _mk(rng, 'canonical', shape)
        cut = int(rng.integers(1, d))
        a = _mk(rng, str(rng.choice(['canonical', 'tucker', 'dense'])), shape[:cut]); b = _mk(rng, str(rng.choice(['canonical', 'dense'])), shape[cut:])
        return tensor.TensorProd(a[0], b[0]), np.multiply.outer(a[1], b[1])
    A = rng.standard_normal(shape)
    return A.copy(), A

def _cmp(rec, case, sig, T, A, scale, step):
    from pyiga import tensor
    from verif.api import guarded
    ok, B = guarded(rec, case, dict(sig, route='asarray'), tensor.asarray, T)
    if not ok: return False
    B = np.asarray(B)
    if np.isscalar(A) or np.ndim(A) == 0:
        good = np.ndim(B) == 0
    else:
        good = B.shape == np.shape(A)
    if not good:
        rec.violation(dict(sig, oracle='shape after step'), case, {'step': step, 'got': list(np.shape(B)), 'want': list(np.shape(A))}); return False
    err = float(np.abs(B - A).max()) if np.size(A) else 0.0
    return rec.check_close('step', err, 1e-11 * scale, sig, case, {'step': step})

def run_case(rec, case):
    from verif.gen import rng_for
    rng = rng_for('C18', case['seed'], case['idx'])
    np.random.seed(int(rng.integers(0, 2 ** 31)))
    {'seq': _seq, 'operator': _operator, 'compress': _compress, 'hosvd': _hosvd, 'aca': _aca, 'greedy': _greedy,
     'generator': _generator, 'modek': _modek, 'greedy_tucker': _greedy_tucker}[case['kind']](rec, case, rng)

def _modek(rec, case, rng):
    """Mode-k products and apply_tprod of full tensors with dense / sparse / LinearOperator factors against the definition
    Y[.., j, ..] = sum_l B[j, l] X[.., l, ..]."""
    import scipy.sparse, scipy.sparse.linalg
    from pyiga import tensor
    from verif.api import guarded
    d = int(rng.integers(1, 5))
    shp = tuple(int(rng.integers(1, 5)) for _ in range(d))
    X = rng.standard_normal(shp)
    k = int(rng.integers(0, d)); m = int(rng.integers(1, 6))
    B = rng.standard_normal((m, shp[k]))
    kind = str(rng.choice(['ndarray', 'csr', 'linop']))
    Bop = B if kind == 'ndarray' else (scipy.sparse.csr_matrix(B) if kind == 'csr' else scipy.sparse.linalg.aslinearoperator(B))
    c = dict(case, shape=list(shp), k=k, m=m, operator=kind)
    rec.case(c, nontrivial=X.size > 1 and d >= 2)
    sig = {'route': 'modek_tprod', 'operator': kind, 'order_ge_3': d >= 3}
    ok, Y = guarded(rec, c, sig, tensor.modek_tprod, Bop, k, X)
    if not ok: return
    ref = np.moveaxis(np.tensordot(B, X, axes=([1], [k])), 0, k)
    rec.count('oracle:modek')
    if np.shape(Y) != ref.shape:
        rec.violation(dict(sig, oracle='shape of the mode-k product'), c, {'got': list(np.shape(Y)), 'want': list(ref.shape)}); return
    rec.check_close('modek', float(np.abs(np.asarray(Y) - ref).max()), 1e-12 * (np.abs(ref).max() + 1), sig, c)

def _seq(rec, case, rng):
    from pyiga import tensor
    from verif.api import guarded
    shape = _rand_shape(rng)
    kind = str(rng.choice(['canonical', 'canonical', 'tucker', 'tucker', 'sum', 'prod']))
    T, A = _mk(rng, kind, shape)
    nsteps = int(rng.integers(1, 9))
    scale = float(np.abs(A).max(initial=0.0)) + 1.0
    hist = []
    rec.case(dict(case, start=kind, shape=list(shape), nsteps=nsteps), nontrivial=(nsteps >= 2 or A.size >= 2))
    for step in range(nsteps):
        if not hasattr(T, 'shape') or np.ndim(A) == 0:
            break
        tk = type(T).__name__
        if tk == 'CanonicalTensor' and getattr(T, 'R', 1) ** max(1, T.ndim) > 200000:
            rec.count('seq:stopped_at_rank_growth'); break      # mixed-format arithmetic would build a Tucker core with R^d entries
        ops = ['neg', 'add', 'sub', 'getitem', 'getitem', 'nway', 'ravel']
        if tk in ('CanonicalTensor', 'TuckerTensor'): ops += ['copy', 'squeeze', 'norm', 'addnd']
        if tk == 'TuckerTensor': ops += ['orthogonalize', 'truncate_full', 'compress0', 'to_canonical', 'pad', 'join']
        if tk == 'CanonicalTensor':
            ops += ['pad']
            # the Tucker core of a canonical tensor of rank R has R^d entries: only while that fits in memory
            if getattr(T, 'R', 1) ** max(1, T.ndim) <= 200000: ops += ['to_tucker']
        if tk == 'ndarray': ops = ['to_tucker', 'neg']
        op = str(rng.choice(ops)); hist.append(op)
        sig = {'kind': 'seq', 'type': tk, 'op': op}
        c = dict(case, history=list(hist))
        shp = np.shape(A)
        if op == 'neg':
            ok, T2 = guarded(rec, c, sig, lambda: -T); A2 = -A
        elif op == 'copy':
            ok, T2 = guarded(rec, c, sig, T.copy); A2 = A.copy()
        elif op in ('add', 'sub', 'addnd'):
            okind = 'dense' if op == 'addnd' else (str(rng.choice(['canonical', 'tucker'])) if tk in ('CanonicalTensor', 'TuckerTensor') else str(rng.choice(['canonical', 'tucker', 'dense'])))
            S, B = _mk(rng, okind, shp)
            sig['other'] = okind
            scale = max(scale, float(np.abs(A).max(initial=0) + np.abs(B).max(initial=0)) + 1)
            if op == 'sub':
                ok, T2 = guarded(rec, c, sig, lambda: T - S); A2 = A - B
            else:
                ok, T2 = guarded(rec, c, sig, lambda: T + S); A2 = A + B
        elif op == 'getitem':
            I, allscalar = _rand_index(rng, shp)
            sig['allscalar'] = allscalar
            c['index'] = repr(I)
            try:
                A2 = _ref_index(A, I)
            except IndexError:
                continue
            if np.size(A2) == 0:
                continue        # empty selections are not claimed
            ok, T2 = guarded(rec, c, sig, lambda: T[I])
            rec.count('oracle:getitem')
            if ok and allscalar and not np.isscalar(T2) and np.ndim(T2) != 0:
                rec.violation(dict(sig, oracle='all-scalar index returns a scalar'), c, {'type': type(T2).__name__}); return
        elif op == 'squeeze':
            sing = [i for i, n_ in enumerate(np.shape(A)) if n_ == 1]
            if sing and rng.random() < 0.6:
                # explicit axes as numpy.squeeze takes them: one axis or a tuple, counted from the front or from the back
                sel = [int(i) for i in rng.choice(sing, size=int(rng.integers(1, len(sing) + 1)), replace=False)]
                sel = [i - len(np.shape(A)) if rng.random() < 0.5 else i for i in sel]
                ax = sel[0] if (len(sel) == 1 and rng.random() < 0.5) else tuple(sel)
                sig = dict(sig, axis='explicit'); rec.count('squeeze_explicit_axes')
                ok, T2 = guarded(rec, c, sig, T.squeeze, ax); A2 = np.squeeze(A, ax)
            else:
                ok, T2 = guarded(rec, c, sig, T.squeeze); A2 = np.squeeze(A)
        elif op == 'nway':
            d = len(shp)
            nops = d if rng.random() < 0.6 else int(rng.integers(0, d + 1))
            if tk in ('TensorProd',): nops = d
            Bs, A2 = [], A
            for k in range(nops):
                if rng.random() < 0.3:
                    Bs.append(None)
                else:
                    M = rng.standard_normal((int(rng.integers(1, 4)), shp[k])); Bs.append(M)
                    A2 = np.moveaxis(np.tensordot(M, A2, axes=([1], [k])), 0, k)
            scale = max(scale, float(np.abs(A2).max(initial=0)) + 1)
            ok, T2 = guarded(rec, c, sig, tensor.apply_tprod, Bs, T)
        elif op == 'ravel':
            ok, v = guarded(rec, c, sig, T.ravel)
            if ok: rec.check_close('step', float(np.abs(np.asarray(v) - A.ravel()).max(initial=0.0)), 1e-11 * scale, sig, c, {'step': step})
            continue
        elif op == 'norm':
            ok, v = guarded(rec, c, sig, T.norm)
            if ok: rec.check_close('step', abs(float(v) - float(np.linalg.norm(A.ravel()))), 1e-7 * scale * max(1, np.sqrt(A.size)), dict(sig, oracle='norm'), c, {'step': step})
            continue
        elif op == 'orthogonalize':
            ok, T2 = guarded(rec, c, sig, T.orthogonalize); A2 = A
            if ok:
                for U in T2.Us:
                    if U.shape[1] <= U.shape[0] and np.abs(U.T @ U - np.eye(U.shape[1])).max(initial=0) > 1e-10:
                        rec.violation(dict(sig, oracle='orthonormal factor columns'), c, {}); break
        elif op == 'truncate_full':
            ok, T2 = guarded(rec, c, sig, T.truncate, T.R if rng.random() < 0.5 else max(T.R)); A2 = A
        elif op == 'compress0':
            ok, T2 = guarded(rec, c, sig, T.compress); A2 = A
            if ok:
                rec.check_close('step', float(np.abs(tensor.asarray(T2) - A).max(initial=0.0)), 1e-9 * scale * max(1, np.sqrt(A.size)), dict(sig, oracle='compress(default) reproduces'), c)
                T2 = T
        elif op == 'to_canonical':
            ok, T2 = guarded(rec, c, sig, tensor.CanonicalTensor.from_tensor, T); A2 = A
            if ok and tk == 'TuckerTensor' and np.abs(A).max(initial=0.0) > 0:
                # the same conversion for a tensor of small magnitude: faithful relative to the tensor, not to 1
                fac = float(10.0 ** rng.uniform(-25, -8))
                ok3, C3 = guarded(rec, c, dict(sig, data='small magnitude'), tensor.CanonicalTensor.from_tensor, tensor.TuckerTensor(T.Us, T.X * fac))
                if ok3:
                    rec.check_close('conversion_small_magnitude', float(np.abs(C3.asarray() - A * fac).max()), 1e-10 * float(np.abs(A * fac).max()),
                                    dict(sig, data='small magnitude'), c, {'factor': fac})
        elif op == 'to_tucker':
            ok, T2 = guarded(rec, c, sig, tensor.TuckerTensor.from_tensor, T); A2 = A
        elif op == 'pad':
            pw = [None if rng.random() < 0.3 else (int(rng.integers(0, 3)), int(rng.integers(0, 3))) for _ in shp]
            ok, T2 = guarded(rec, c, sig, tensor.pad, T, pw)
            A2 = np.pad(A, [(0, 0) if w is None else w for w in pw])
        elif op == 'join':
            S, B = _mk(rng, 'tucker', shp)
            ok, r = guarded(rec, c, sig, tensor.join_tucker_bases, T, S)
            if ok:
                U, X1, X2 = r
                e1 = np.abs(tensor.asarray(tensor.TuckerTensor(U, X1)) - A).max(initial=0); e2 = np.abs(tensor.asarray(tensor.TuckerTensor(U, X2)) - B).max(initial=0)
                rec.check_close('step', float(max(e1, e2)), 1e-11 * (scale + np.abs(B).max(initial=0)), dict(sig, oracle='joint basis represents both'), c)
            continue
        else:
            continue
        if not ok: return
        if not _cmp(rec, c, sig, T2, A2, scale, step): return
        T, A = T2, A2

def _operator(rec, case, rng):
    from pyiga import tensor
    import scipy.sparse
    from verif.api import guarded
    d = int(rng.integers(1, 4))
    ins = [int(rng.integers(1, 4)) for _ in range(d)]; outs = [int(rng.integers(1, 4)) for _ in range(d)]
    use_sparse = bool(rng.random() < 0.4)      # one storage kind per case (ndarray.dot(sparse) is a numpy pitfall)
    def mkop(shin, shout):
        R = int(rng.integers(1, 4))
        terms = [tuple(rng.standard_normal((o, i)) for o, i in zip(shout, shin)) for _ in range(R)]
        D = 0
        for t in terms:
            K = t[0]
            for M in t[1:]: K = np.kron(K, M)
            D = D + K
        sp = use_sparse
        return tensor.CanonicalOperator([tuple(scipy.sparse.csr_matrix(M) for M in t) if sp else t for t in terms]), D
    Op, D = mkop(ins, outs)
    rec.case(dict(case, ins=ins, outs=outs), nontrivial=D.size >= 2)
    sig = {'kind': 'operator'}
    def dense(O):
        # asmatrix() is documented for sparse terms; dense terms are expanded through the documented
        # `terms` attribute (sum of Kronecker products) instead
        if all(scipy.sparse.issparse(M) for t in O.terms for M in t):
            return np.asarray(O.asmatrix().toarray())
        tot = 0
        for t in O.terms:
            K = t[0].toarray() if scipy.sparse.issparse(t[0]) else np.asarray(t[0])
            for M in t[1:]:
                K = np.kron(K, M.toarray() if scipy.sparse.issparse(M) else np.asarray(M))
            tot = tot + K
        return tot
    def chk(name, O, ref):
        ok, M = guarded(rec, case, dict(sig, op=name), dense, O)
        if ok:
            if M.shape != ref.shape:
                rec.violation(dict(sig, op=name, oracle='shape'), case, {'got': list(M.shape), 'want': list(ref.shape)})
            else:
                rec.check_close('operator', float(np.abs(M - ref).max(initial=0)), 1e-11 * (np.abs(ref).max(initial=0) + 1), dict(sig, op=name), case)
    chk('asmatrix', Op, D)
    Op2, D2 = mkop(ins, outs)
    chk('add', Op + Op2, D + D2); chk('sub', Op - Op2, D - D2); chk('neg', -Op, -D); chk('T', Op.T, D.T)
    mids = [int(rng.integers(1, 4)) for _ in range(d)]
    Op3, D3 = mkop(mids, ins)
    chk('mul', Op * Op3, D @ D3); chk('matmul_op', Op @ Op3, D @ D3)
    Opk, Dk = mkop([int(rng.integers(1, 3))], [int(rng.integers(1, 3))])
    chk('kron', Op.kron(Opk), np.kron(D, Dk))
    chk('eye', tensor.CanonicalOperator.eye(ins), np.eye(int(np.prod(ins))))
    # application to full and low-rank tensors
    X = rng.standard_normal(ins)
    ref = (D @ X.ravel()).reshape(outs)
    for tkind in ('dense', 'canonical', 'tucker'):
        if tkind == 'dense': T, A = X, X
        else: T, A = _mk(rng, tkind, tuple(ins))
        refA = (D @ A.ravel()).reshape(outs)
        for name, f in (('apply', lambda: Op.apply(T)), ('matmul', lambda: Op @ T)):
            ok, Y = guarded(rec, case, dict(sig, op=name, arg=tkind), f)
            if ok:
                Y = np.asarray(tensor.asarray(Y))
                if Y.shape != refA.shape: rec.violation(dict(sig, op=name, arg=tkind, oracle='shape'), case, {})
                else: rec.check_close('operator', float(np.abs(Y - refA).max(initial=0)), 1e-11 * (np.abs(D).sum() * (np.abs(A).max(initial=0) + 1) + 1), dict(sig, op=name, arg=tkind), case)
    # slicing of square operators
    n = [int(rng.integers(2, 5)) for _ in range(d)]
    Osq, Dsq = mkop(n, n)
    lim = [(int(a), int(b)) for a, b in ((lambda a, b: (min(a, b), max(a, b) + 1))(int(rng.integers(0, k)), int(rng.integers(0, k))) for k in n)]
    idx = np.ix_(*[np.arange(a, b) for a, b in lim])
    flat = np.ravel_multi_index(np.meshgrid(*[np.arange(a, b) for a, b in lim], indexing='ij'), n).ravel()
    chk('slice', Osq.slice(lim), Dsq[np.ix_(flat, flat)])

def _compress(rec, case, rng):
    from pyiga import tensor
    from verif.api import guarded
    shape = tuple(int(rng.integers(2, 7)) for _ in range(int(rng.integers(2, 4))))
    T, A = _mk(rng, 'tucker', shape)
    # add a small perturbation so that truncation is non-trivial
    mag = 10.0 ** rng.uniform(-12, -1)
    P = rng.standard_normal(shape) * mag
    Tt = tensor.TuckerTensor.from_tensor(A + P)
    tol = 10.0 ** rng.uniform(-13, -2); rtol = 10.0 ** rng.uniform(-13, -2)
    mode = int(rng.integers(0, 3))
    kw = {'tol': tol, 'rtol': 1e-300} if mode == 0 else ({'tol': 1e-300, 'rtol': rtol} if mode == 1 else {'tol': tol, 'rtol': rtol})
    c = dict(case, shape=list(shape), **{k: float(v) for k, v in kw.items()})
    rec.case(c, nontrivial=True)
    sig = {'kind': 'compress', 'mode': mode}
    ok, C = guarded(rec, c, sig, Tt.compress, **kw)
    if not ok: return
    full = A + P
    err = float(np.linalg.norm((tensor.asarray(C) - full).ravel()))
    bound = max(kw['tol'], kw['rtol'] * float(np.linalg.norm(full.ravel())))
    rec.check_close('compress', err, bound * (1 + 1e-8) + 1e-13 * np.linalg.norm(full.ravel()), sig, c, {'rank': list(C.R)})
    if any(r > n for r, n in zip(C.R, shape)):
        rec.violation(dict(sig, oracle='rank not above the size'), c, {'R': list(C.R)})
    # truncate: error equals the norm of the discarded core of the orthogonalised HOSVD
    H = tensor.hosvd(full)
    k = tuple(int(rng.integers(1, n + 1)) for n in shape)
    ok, Tk = guarded(rec, c, dict(sig, route='truncate'), H.truncate, k)
    if ok:
        disc = H.X.copy(); disc[tuple(slice(None, ki) for ki in k)] = 0
        e = float(np.linalg.norm((tensor.asarray(Tk) - full).ravel()))
        rec.check_close('compress', abs(e - float(np.linalg.norm(disc.ravel()))), 1e-10 * (np.linalg.norm(full.ravel()) + 1), dict(sig, route='truncate', oracle='error = discarded core'), c)

def _hosvd(rec, case, rng):
    from pyiga import tensor
    from verif.api import guarded
    shape = _rand_shape(rng, dmax=4, nmax=5)
    A = rng.standard_normal(shape)
    rec.case(dict(case, shape=list(shape)), nontrivial=A.size >= 2)
    sig = {'kind': 'hosvd'}
    ok, H = guarded(rec, case, sig, tensor.hosvd, A)
    if not ok: return
    rec.check_close('hosvd', float(np.abs(tensor.asarray(H) - A).max()), 1e-12 * (np.abs(A).max() + 1) * A.size, sig, case)
    for U in H.Us:
        if np.abs(U.T @ U - np.eye(U.shape[1])).max() > 1e-12 * U.shape[0]:
            rec.violation(dict(sig, oracle='orthonormal factors'), case, {}); break
    rec.check_close('hosvd', abs(H.norm() - np.linalg.norm(A.ravel())), 1e-11 * (np.linalg.norm(A.ravel()) + 1), dict(sig, oracle='norm'), case)

def _aca(rec, case, rng):
    from pyiga import lowrank, tensor
    from verif.api import guarded
    which = int(rng.integers(0, 3))
    r = int(rng.integers(1, 4))
    if which < 2:
        m, n = int(rng.integers(r + 1, 12)), int(rng.integers(r + 1, 12))
        A = rng.standard_normal((m, r)) @ rng.standard_normal((r, n))
        c = dict(case, which=['aca', 'aca_lr'][which], shape=[m, n], rank=r)
        rec.case(c, nontrivial=True)
        sig = {'kind': 'aca', 'route': c['which']}
        arg = A if rng.random() < 0.5 else lowrank.TensorGenerator.from_array(A)
        if which == 0:
            ok, X = guarded(rec, c, sig, lowrank.aca, arg, tol=1e-12, maxiter=50, verbose=0)
        else:
            ok, cr = guarded(rec, c, sig, lowrank.aca_lr, arg, tol=1e-12, maxiter=50, verbose=0)
            if ok:
                X = sum(np.outer(cc, rr) for cc, rr in cr) if cr else np.zeros_like(A)
                if len(cr) > r + 3: rec.violation(dict(sig, oracle='number of crosses ~ rank'), c, {'crosses': len(cr)})
        if ok:
            rec.check_close('aca', float(np.abs(np.asarray(X) - A).max()), 1e-9 * (np.abs(A).max() + 1), sig, c)
    else:
        shp = tuple(int(rng.integers(2, 6)) for _ in range(3))
        A = sum(np.multiply.outer(np.multiply.outer(rng.standard_normal(shp[0]), rng.standard_normal(shp[1])), rng.standard_normal(shp[2])) for _ in range(r))
        lr = bool(rng.integers(0, 2))
        c = dict(case, which='aca_3d', shape=list(shp), rank=r, lr=lr)
        rec.case(c, nontrivial=True)
        sig = {'kind': 'aca', 'route': 'aca_3d', 'lr': lr}
        import io, contextlib
        buf = io.StringIO()
        with contextlib.redirect_stdout(buf):
            ok, X = guarded(rec, c, sig, lowrank.aca_3d, A, tol=1e-12, maxiter=60, verbose=1, lr=lr)
        # how the outer cross approximation says it terminated (mechanism signature of a deviation)
        last = [l for l in buf.getvalue().splitlines() if 'outer it' in l]
        why = last[-1] if last else ''
        sig = dict(sig, stopped_by='skipcount' if 'skip count' in why else ('tolerance' if 'tolerance' in why else ('maxiter' if 'aximum iteration' in why else 'unknown')))
        rec.count('aca3d_stop:' + sig['stopped_by'])
        if ok:
            err = float(np.abs(tensor.asarray(X) - A).max()); bound = 1e-8 * (np.abs(A).max() + 1)
            if not err <= bound:
                # the known premature stop depends on the random fibres drawn: repeat with other draws; a deviation that comes back
                # every time has another cause
                again = []
                for t in range(4):
                    np.random.seed(1000 + t)
                    with contextlib.redirect_stdout(io.StringIO()):
                        ok2, X2 = guarded(rec, c, sig, lowrank.aca_3d, A, tol=1e-12, maxiter=60, verbose=0, lr=lr)
                    again.append(bool(ok2 and float(np.abs(tensor.asarray(X2) - A).max()) > bound))
                sig = dict(sig, reproducible=all(again))
            rec.check_close('aca', err, bound, sig, c)

def _greedy(rec, case, rng):
    from pyiga import tensor
    from verif.api import guarded
    shape = tuple(int(rng.integers(2, 5)) for _ in range(int(rng.integers(2, 4))))
    r = int(rng.integers(1, 3))
    T, A = _mk(rng, 'canonical', shape)
    if not np.any(A): A = A + rng.standard_normal(shape)
    which = str(rng.choice(['grou', 'gta']))
    R = int(rng.integers(1, 5)); tol = 10.0 ** rng.uniform(-10, -1)
    c = dict(case, which=which, shape=list(shape), R=R, tol=tol)
    rec.case(c, nontrivial=True)
    sig = {'kind': 'greedy', 'route': which}
    if which == 'grou':
        ok, r_ = guarded(rec, c, sig, tensor.grou, A, R, tol=tol, return_errors=True)
    else:
        ok, r_ = guarded(rec, c, sig, tensor.gta, A, R, tol=tol, rtol=1e-300, return_errors=True)
    if not ok: return
    X, errs = r_
    rec.count('oracle:greedy_history')
    errs = [float(e) for e in errs]
    if any(b > a * (1 + 1e-8) + 1e-12 for a, b in zip(errs[:-1], errs[1:])):
        rec.violation(dict(sig, oracle='error history non-increasing'), c, {'errors': errs})
    if not (errs[-1] < tol or len(errs) >= R):
        rec.violation(dict(sig, oracle='ends below tol or at the rank limit'), c, {'errors': errs, 'R': R, 'tol': tol})
    true = float(np.linalg.norm((tensor.asarray(X) - A).ravel()))
    rec.check_close('greedy_reported_error', abs(true - errs[-1]), 1e-8 * (np.linalg.norm(A.ravel()) + 1), dict(sig, oracle='reported error = actual error'), c)
    _rank_limit(rec, c, sig, which, X, A, R, errs, tol)

def _rank_limit(rec, c, sig, which, X, A, R, errs, tol):
    """A run that stops above the tolerance has really reached the rank limit: every basis of the Tucker approximation has
    min(R, rank of the mode-j unfolding) columns (each iteration adds one direction to every basis that is not complete yet)."""
    if which != 'gta' or errs[-1] < tol: return
    rec.count('oracle:greedy_rank_limit')
    Us = getattr(X, 'Us', None)
    if Us is None: return
    for j, U in enumerate(Us):
        rj = int(np.linalg.matrix_rank(np.moveaxis(A, j, 0).reshape(A.shape[j], -1)))
        need = min(R, rj)
        if U.shape[1] < need:
            rec.violation(dict(sig, oracle='a greedy run that ends above the tolerance has reached the rank limit in every mode'), c,
                          {'mode': j, 'columns': int(U.shape[1]), 'needed': need, 'errors': [float(e) for e in errs][-4:], 'tol': tol}); return

def _greedy_tucker(rec, case, rng):
    """gta on tensors with prescribed multilinear rank, a short axis ahead of longer ones and R beyond the short axis."""
    from pyiga import tensor
    from verif.api import guarded
    d = 3
    shape = (int(rng.integers(2, 4)), int(rng.integers(4, 8)), int(rng.integers(4, 8)))
    shape = tuple(int(x) for x in rng.permutation(shape)) if rng.random() < 0.4 else shape
    ranks = tuple(int(rng.integers(1, n + 1)) if n <= 3 else int(rng.integers(2, 4)) for n in shape)
    core = rng.standard_normal(ranks)
    Us = [np.linalg.qr(rng.standard_normal((n, r)))[0] for n, r in zip(shape, ranks)]
    A = np.einsum('abc,ia,jb,kc->ijk', core, *Us)
    R = int(max(ranks) + rng.integers(0, 3)); tol = 10.0 ** rng.uniform(-9, -6)
    c = dict(case, which='gta', shape=list(shape), multilinear_rank=list(ranks), R=R, tol=tol)
    rec.case(c, nontrivial=True)
    sig = {'kind': 'greedy', 'route': 'gta', 'data': 'prescribed multilinear rank'}
    ok, r_ = guarded(rec, c, sig, tensor.gta, A, R, tol=tol, rtol=1e-300, return_errors=True)
    if not ok: return
    X, errs = r_
    errs = [float(e) for e in errs]
    rec.count('oracle:greedy_history')
    if any(b > a * (1 + 1e-8) + 1e-12 for a, b in zip(errs[:-1], errs[1:])):
        rec.violation(dict(sig, oracle='error history non-increasing'), c, {'errors': errs})
    if not (errs[-1] < tol or len(errs) >= R):
        rec.violation(dict(sig, oracle='ends below tol or at the rank limit'), c, {'errors': errs, 'R': R, 'tol': tol})
    true = float(np.linalg.norm((tensor.asarray(X) - A).ravel()))
    rec.check_close('greedy_reported_error', abs(true - errs[-1]), 1e-8 * (np.linalg.norm(A.ravel()) + 1), dict(sig, oracle='reported error = actual error'), c)
    _rank_limit(rec, c, sig, 'gta', X, A, R, errs, tol)

def _generator(rec, case, rng):
    from pyiga import lowrank
    from verif.api import guarded
    shape = _rand_shape(rng, dmax=4, nmax=5)
    A = rng.standard_normal(shape)
    G = lowrank.TensorGenerator.from_array(A)
    rec.case(dict(case, shape=list(shape)), nontrivial=A.size >= 2)
    sig = {'kind': 'generator'}
    ok, F = guarded(rec, case, dict(sig, route='asarray'), G.asarray)
    rec.count('oracle:generator')
    if ok and (F.shape != A.shape or not np.array_equal(F, A)):
        rec.violation(dict(sig, oracle='asarray = wrapped array'), case, {})
    for t in range(6):
        I, allscalar = _rand_index(rng, shape)
        try: ref = _ref_index(A, I)
        except IndexError: continue
        if np.size(ref) == 0: continue
        c = dict(case, index=repr(I))
        ok, got = guarded(rec, c, dict(sig, route='getitem', allscalar=allscalar), lambda: G[I])
        if ok:
            rec.count('oracle:generator')
            got = np.asarray(got)
            if got.shape != np.shape(ref) or not np.array_equal(got, ref):
                rec.violation(dict(sig, route='getitem', oracle='entries of the wrapped array', allscalar=allscalar), c, {'got_shape': list(got.shape), 'want_shape': list(np.shape(ref))})
    if len(shape) >= 2:
        ax = sorted(rng.choice(len(shape), size=2, replace=False).tolist())
        I0 = [int(rng.integers(0, n)) for n in shape]
        ok, Mg = guarded(rec, case, dict(sig, route='matrix_at'), G.matrix_at, I0, tuple(ax))
        if ok:
            sl = list(I0); sl[ax[0]] = slice(None); sl[ax[1]] = slice(None)
            if not np.array_equal(Mg.asarray(), A[tuple(sl)]):
                rec.violation(dict(sig, route='matrix_at', oracle='matrix slice'), case, {})
