"""C16 — linear-operator building blocks equal their dense definitions.

Oracle: explicit dense numpy matrices (np.kron, np.block, block_diag, np.diag, sum P B P^T,
np.linalg.solve) built next to each operator instance; every application route (vector, (n,1),
(n,m), .T, .H) is compared at the API boundary.
"""
import numpy as np

PROPERTY = 'C16'
LEVEL = 'exploration'
RULE = ('random operator instances: kind in {null, identity, diagonal, kronecker(1-4 factors, independent shapes 1..5, operand kinds '
        'ndarray/csr/csc/LinearOperator/pyiga operator, dtypes f64/f32/int), block (rectangular, null/None blocks), blockdiag, subspace, '
        'solver factories (dense/sparse x general/symmetric/spd), kronecker solver, fastdiag (dim 1-3), apply_tprod/apply_kronecker/'
        'modek_tprod with None placeholders and trailing axes, CSRRowSlice/CSRRowSubset}; distinct by (kind, seed); non-trivial if the '
        'dense matrix has more than one entry')
MIN_NONTRIVIAL = {'quick': 2000, 'thorough': 40000}
REQUIRED_COUNTERS = ['oracle:matvec', 'oracle:matmat', 'oracle:transpose', 'oracle:adjoint', 'oracle:solver', 'oracle:apply_tprod']
ASSUMPTIONS = ['dense numpy linear algebra is the trusted reference', 'tolerance 200 eps(dtype) (|A||x|) entrywise bound; solver residuals scaled by cond(B)']

KINDS = ['null', 'identity', 'diagonal', 'kronecker', 'kronecker', 'kronecker', 'block', 'block', 'blockdiag', 'subspace',
         'solver', 'solver', 'kronsolver', 'fastdiag', 'tprod', 'tprod', 'modek', 'applykron', 'csrslice']

def cases(tier, seed):
    n = {'quick': 4000, 'thorough': 500000}[tier]
    for i in range(n):
        yield {'kind': KINDS[i % len(KINDS)], 'seed': seed, 'idx': i}

def _eps(dt):
    return np.finfo(dt).eps if np.issubdtype(dt, np.floating) else np.finfo(float).eps

def _rand_matrix(rng, m, n, dtype, density=1.0):
    if np.issubdtype(dtype, np.integer):
        A = rng.integers(-3, 4, size=(m, n)).astype(dtype)
    else:
        A = rng.standard_normal((m, n)).astype(dtype)
    if density < 1.0:
        A = A * (rng.random((m, n)) < density)
    return A

def _as_kind(rng, A, kind):
    import scipy.sparse, scipy.sparse.linalg
    from pyiga import operators
    if kind == 'ndarray': return A
    if kind == 'csr': return scipy.sparse.csr_matrix(A)
    if kind == 'csc': return scipy.sparse.csc_matrix(A)
    if kind == 'linop': return scipy.sparse.linalg.aslinearoperator(A)
    if kind == 'pyiga':
        # a pyiga operator with the same dense matrix: block-diagonal of the rows split in two
        if A.shape[0] >= 2 and A.shape[1] >= 2:
            k = A.shape[0] // 2; l = A.shape[1] // 2
            return operators.BlockOperator([[A[:k, :l], A[:k, l:]], [A[k:, :l], A[k:, l:]]])
        return scipy.sparse.linalg.aslinearoperator(A)
    raise ValueError(kind)

def run_case(rec, case):
    import scipy.sparse, scipy.sparse.linalg, scipy.linalg
    from pyiga import operators, kronecker, tensor, solvers, utils
    from verif.gen import rng_for
    from verif.api import guarded
    rng = rng_for('C16', case['seed'], case['idx'])
    kind = case['kind']
    sig = {'kind': kind}

    def compare_operator(op, D, dtype=np.float64, tag='', check_adjoint=True):
        """op must act like the dense matrix D for vectors, (n,1) and (n,m) arguments, incl. T and H."""
        rec.case(dict(case, shape=list(D.shape), tag=tag), nontrivial=D.size > 1)
        eps = _eps(dtype)
        absD = np.abs(D).astype(float)
        def cmpv(name, fn, ref, scale, extra):
            ok, y = guarded(rec, case, dict(sig, route=name, **extra), fn)
            if not ok: return
            y = np.asarray(y)
            if y.shape != ref.shape:
                rec.violation(dict(sig, route=name, oracle='result shape', **extra), case, {'got': list(y.shape), 'want': list(ref.shape)})
                return
            err = np.abs(y.astype(float) - ref)
            tol = 200 * eps * scale + 1e-300
            w = np.unravel_index(np.argmax(err / tol), err.shape) if err.size else ()
            if err.size:
                rec.check_close(name, float(err[w]), float(tol[w]), dict(sig, route=name, **extra), case)
            else:
                rec.count('oracle:' + name)
        if op.shape != D.shape:
            rec.violation(dict(sig, oracle='operator shape'), case, {'got': list(op.shape), 'want': list(D.shape)}); return
        for tname, O, M in (('', op, D), ('T', None, D.T), ('H', None, D.conj().T)):
            if tname == 'H' and not check_adjoint: continue
            if tname:
                ok, O = guarded(rec, case, dict(sig, route='get_' + tname), (lambda: op.T) if tname == 'T' else (lambda: op.H))
                if not ok: continue
            aM = np.abs(M).astype(float)
            x = rng.standard_normal(M.shape[1]); X = rng.standard_normal((M.shape[1], 3))
            rname = {'': 'matvec', 'T': 'transpose', 'H': 'adjoint'}[tname]
            cmpv(rname, lambda: O.dot(x), M.astype(float) @ x, aM @ np.abs(x), {'arg': 'vector'})
            cmpv(rname, lambda: O @ x, M.astype(float) @ x, aM @ np.abs(x), {'arg': 'vector@'})
            cmpv(rname if tname else 'matmat', lambda: O.dot(x[:, None]), (M.astype(float) @ x)[:, None], (aM @ np.abs(x))[:, None], {'arg': 'column'})
            cmpv(rname if tname else 'matmat', lambda: O @ X, M.astype(float) @ X, aM @ np.abs(X), {'arg': 'matrix'})
            # arguments that are not float64 (unit vectors typed as integers, masks): the product is the real-valued one all the same
            xi = rng.integers(-3, 4, size=M.shape[1])
            cmpv(rname, lambda: O.dot(xi), M.astype(float) @ xi, aM @ np.abs(xi), {'arg': 'int vector'})
            xb = rng.integers(0, 2, size=M.shape[1]).astype(bool)
            cmpv(rname, lambda: O.dot(xb), M.astype(float) @ xb.astype(float), aM @ xb.astype(float), {'arg': 'bool vector'})

    okinds = ['ndarray', 'csr', 'csc', 'linop', 'pyiga']
    if kind == 'null':
        m, n = rng.integers(1, 6, size=2)
        compare_operator(operators.NullOperator((int(m), int(n))), np.zeros((m, n)))
    elif kind == 'identity':
        n = int(rng.integers(1, 7))
        compare_operator(operators.IdentityOperator(n), np.eye(n))
    elif kind == 'diagonal':
        n = int(rng.integers(1, 8))
        d = rng.standard_normal(n)
        shape = [(n,), (n, 1), (1, n)][int(rng.integers(0, 3))]
        compare_operator(operators.DiagonalOperator(d.reshape(shape)) if n > 1 else operators.DiagonalOperator(d), np.diag(d))
    elif kind == 'kronecker':
        nf = int(rng.integers(1, 5))
        dtype = [np.float64, np.float64, np.float32, np.int64][int(rng.integers(0, 4))]
        square = bool(rng.integers(0, 2))
        mats, ops, kinds = [], [], []
        for f in range(nf):
            m = int(rng.integers(1, 5)); n = m if square else int(rng.integers(1, 5))
            A = _rand_matrix(rng, m, n, dtype, density=float(rng.choice([1.0, 0.6])))
            k = str(rng.choice(okinds))
            if k in ('linop', 'pyiga') and not np.issubdtype(dtype, np.floating): k = 'ndarray'
            mats.append(A); kinds.append(k); ops.append(_as_kind(rng, A, k))
        D = mats[0]
        for A in mats[1:]: D = np.kron(D, A)
        sig.update(nfactors=nf, square=square, dtype=np.dtype(dtype).name, operand_kinds='/'.join(sorted(set(kinds))))
        ok, K = guarded(rec, case, dict(sig, route='construct'), operators.KroneckerOperator, *ops)
        if ok:
            compare_operator(K, D, dtype=dtype)
    elif kind in ('block', 'blockdiag'):
        M = int(rng.integers(1, 4)); N = int(rng.integers(1, 4))
        hs = rng.integers(1, 4, size=M); ws = rng.integers(1, 4, size=N)
        if kind == 'blockdiag':
            nb = int(rng.integers(1, 4))
            mats = [_rand_matrix(rng, int(rng.integers(1, 4)), int(rng.integers(1, 4)), np.float64) for _ in range(nb)]
            ops = [_as_kind(rng, A, str(rng.choice(okinds))) for A in mats]
            compare_operator(operators.BlockDiagonalOperator(*ops), scipy.linalg.block_diag(*mats))
        else:
            rows, drows = [], []
            for i in range(M):
                r, dr = [], []
                for j in range(N):
                    A = _rand_matrix(rng, int(hs[i]), int(ws[j]), np.float64)
                    z = rng.random()
                    # the first row/column must carry real operators (sizes are read from them)
                    if z < 0.25 and i > 0 and j > 0:
                        r.append(None if rng.random() < 0.5 else operators.NullOperator(A.shape)); dr.append(np.zeros(A.shape))
                    elif z < 0.35:
                        r.append(operators.NullOperator(A.shape)); dr.append(np.zeros(A.shape))
                    else:
                        r.append(_as_kind(rng, A, str(rng.choice(okinds)))); dr.append(A)
                rows.append(r); drows.append(dr)
            ok, B = guarded(rec, case, dict(sig, route='construct'), operators.BlockOperator, rows)
            if ok:
                compare_operator(B, np.block(drows))
    elif kind == 'subspace':
        n = int(rng.integers(2, 8)); k = int(rng.integers(1, 4))
        Ps, Bs, D = [], [], np.zeros((n, n))
        for j in range(k):
            nj = int(rng.integers(1, n + 1))
            P = _rand_matrix(rng, n, nj, np.float64, density=0.7); B = _rand_matrix(rng, nj, nj, np.float64)
            D += P @ B @ P.T
            Ps.append(_as_kind(rng, P, str(rng.choice(['ndarray', 'csr']))))
            Bs.append(_as_kind(rng, B, str(rng.choice(['ndarray', 'csr', 'linop']))))
        S = operators.SubspaceOperator(Ps, Bs)
        # SubspaceOperator implements only matvec: exercise vector, column and transposed applications
        rec.case(dict(case, shape=[n, n]), nontrivial=True)
        x = rng.standard_normal(n)
        for name, O, M in (('matvec', S, D), ('transpose', S.T, D.T), ('transpose', S.T.T, D)):
            for arg, xx in (('vector', x), ('column', x[:, None])):
                ok, y = guarded(rec, case, dict(sig, route=name, arg=arg), O.dot, xx)
                if ok:
                    ref = M @ x
                    y = np.asarray(y)
                    if y.shape != xx.shape:
                        rec.violation(dict(sig, route=name, arg=arg, oracle='result shape'), case, {'got': list(y.shape)}); continue
                    rec.check_close(name, float(np.abs(y.ravel() - ref).max()), float(200 * 2.2e-16 * (np.abs(M) @ np.abs(x)).max() * n + 1e-300),
                                    dict(sig, route=name, arg=arg), case)
    elif kind in ('solver', 'kronsolver'):
        def rand_solvable(n, flavour):
            A = rng.standard_normal((n, n))
            if flavour == 'spd': A = A @ A.T + n * np.eye(n)
            elif flavour == 'symmetric': A = A + A.T + (2 * n) * np.diag(rng.choice([-1.0, 1.0], n))      # symmetric, in general indefinite
            elif flavour == 'saddle':
                # [[eps*I, B^T], [B, -C]] with the tiny block first: symmetric indefinite, small pivots on the diagonal, well conditioned
                k = max(1, n // 2); m_ = n - k if n > 1 else 0
                B = rng.standard_normal((m_, k)) + (np.eye(m_, k) * 2 if m_ else 0)
                Cb = rng.standard_normal((m_, m_)); Cb = Cb @ Cb.T + np.eye(m_) if m_ else Cb
                eps = float(rng.choice([0.0, 1e-14, 1e-12, 1e-9]))
                A = np.block([[eps * np.eye(k), B.T], [B, -Cb]]) if m_ else np.array([[1.0]])
                if m_ and np.linalg.cond(A) > 1e6: A = A + A.T + (2 * n) * np.diag(rng.choice([-1.0, 1.0], n))
            else: A = A + n * np.eye(n)
            return A
        if kind == 'solver':
            n = int(rng.integers(1, 9)); flavour = str(rng.choice(['general', 'symmetric', 'spd', 'saddle'])); sparse = bool(rng.integers(0, 2))
            A = rand_solvable(n, flavour)
            # every scipy storage format denotes the same matrix (banded matrices typically arrive in DIA format from scipy.sparse.diags)
            fmt = str(rng.choice(['csr', 'csr', 'csc', 'coo', 'dia', 'bsr', 'lil'])) if sparse else 'dense'
            if sparse and rng.random() < 0.3:
                A = np.triu(np.tril(A, 1), -1)            # tridiagonal part: still SPD / symmetric / diagonally dominant as drawn
                if flavour == 'saddle': flavour = 'symmetric'; A = A + A.T + (2 * n) * np.diag(np.sign(np.diag(A)) + (np.diag(A) == 0))
            sig.update(flavour=flavour, sparse=sparse, format=fmt)
            Aop = scipy.sparse.csr_matrix(A).asformat(fmt) if sparse else A
            ok, S = guarded(rec, case, dict(sig, route='make_solver'), operators.make_solver, Aop, symmetric=(flavour != 'general'), spd=(flavour == 'spd'))
            mats = [A]
        else:
            nf = int(rng.integers(1, 4)); mats = [rand_solvable(int(rng.integers(1, 5)), 'general') for _ in range(nf)]
            ops = [scipy.sparse.csr_matrix(A).asformat(str(rng.choice(['csr', 'csc', 'coo', 'dia', 'bsr', 'lil']))) if rng.random() < 0.5 else A for A in mats]
            ok, S = guarded(rec, case, dict(sig, route='make_kronecker_solver'), operators.make_kronecker_solver, *ops)
        if ok:
            D = mats[0]
            for A in mats[1:]: D = np.kron(D, A)
            rec.case(dict(case, shape=list(D.shape)), nontrivial=D.size > 1)
            cond = np.linalg.cond(D)
            for arg, x in (('vector', rng.standard_normal(D.shape[0])), ('matrix', rng.standard_normal((D.shape[0], 3)))):
                ok2, y = guarded(rec, case, dict(sig, route='solver_apply', arg=arg), S.dot, x)
                if ok2:
                    y = np.asarray(y)
                    if y.shape != x.shape:
                        rec.violation(dict(sig, route='solver_apply', arg=arg, oracle='result shape'), case, {'got': list(y.shape)}); continue
                    r = np.abs(D @ y - x).max()
                    rec.check_close('solver', float(r), float(1e-13 * cond * (np.abs(x).max() + 1) * D.shape[0]), dict(sig, arg=arg), case)
    elif kind == 'fastdiag':
        dim = int(rng.integers(1, 4))
        KM, Ks, Ms = [], [], []
        for d in range(dim):
            n = int(rng.integers(2, 6))
            B = rng.standard_normal((n, n)); K = B @ B.T + 0.1 * np.eye(n)
            C = rng.standard_normal((n, n)); M = C @ C.T + n * np.eye(n)
            fmt = str(rng.choice(['ndarray', 'csr']))
            KM.append((scipy.sparse.csr_matrix(K), scipy.sparse.csr_matrix(M)) if fmt == 'csr' else (K, M))
            Ks.append(K); Ms.append(M)
        # generalized Laplacian: sum_d M x .. x K_d x .. x M
        D = 0
        for d in range(dim):
            f = [Ks[j] if j == d else Ms[j] for j in range(dim)]
            T = f[0]
            for A in f[1:]: T = np.kron(T, A)
            D = D + T
        sig.update(dim=dim)
        ok, S = guarded(rec, case, dict(sig, route='fastdiag_solver'), solvers.fastdiag_solver, KM)
        if ok:
            rec.case(dict(case, shape=list(D.shape)), nontrivial=True)
            cond = np.linalg.cond(D)
            for arg, x in (('vector', rng.standard_normal(D.shape[0])), ('matrix', rng.standard_normal((D.shape[0], 2)))):
                ok2, y = guarded(rec, case, dict(sig, route='fastdiag_apply', arg=arg), S.dot, x)
                if ok2:
                    y = np.asarray(y)
                    if y.shape != x.shape:
                        rec.violation(dict(sig, route='fastdiag_apply', arg=arg, oracle='result shape'), case, {'got': list(y.shape)}); continue
                    r = np.abs(D @ y - x).max()
                    rec.check_close('solver', float(r), float(1e-12 * cond * (np.abs(x).max() + 1) * D.shape[0]), dict(sig, arg=arg), case)
    elif kind in ('tprod', 'modek', 'applykron'):
        nf = int(rng.integers(1, 5))
        if kind == 'applykron':
            # apply_kronecker: square matrices / operators
            mats = [rng.standard_normal((m, m)) for m in rng.integers(1, 5, size=nf)]
            alld = bool(rng.integers(0, 2))
            ops = [A if alld else _as_kind(rng, A, str(rng.choice(['ndarray', 'csr', 'linop']))) for A in mats]
            D = mats[0]
            for A in mats[1:]: D = np.kron(D, A)
            rec.case(dict(case, shape=list(D.shape)), nontrivial=D.size > 1)
            for arg, x in (('vector', rng.standard_normal(D.shape[1])), ('matrix', rng.standard_normal((D.shape[1], 3)))):
                ok, y = guarded(rec, case, dict(sig, route='apply_kronecker', arg=arg), kronecker.apply_kronecker, ops, x)
                if ok:
                    ref = D @ x
                    if np.shape(y) != ref.shape:
                        rec.violation(dict(sig, route='apply_kronecker', oracle='result shape', arg=arg), case, {'got': list(np.shape(y))}); continue
                    rec.check_close('apply_tprod', float(np.abs(y - ref).max()), float(1e-13 * (np.abs(D) @ np.abs(x)).max() + 1e-300), dict(sig, route='apply_kronecker', arg=arg), case)
            return
        shp_in = [int(v) for v in rng.integers(1, 5, size=nf)]
        trailing = [int(v) for v in rng.integers(1, 4, size=int(rng.integers(0, 3)))]
        X = rng.standard_normal(tuple(shp_in + trailing))
        if kind == 'modek':
            k = int(rng.integers(0, nf))
            m = int(rng.integers(1, 5))
            B = rng.standard_normal((m, shp_in[k]))
            Bop = _as_kind(rng, B, str(rng.choice(['ndarray', 'csr', 'linop'])))
            rec.case(dict(case, shape=list(X.shape), k=k), nontrivial=X.size > 1)
            ok, Y = guarded(rec, case, dict(sig, route='modek_tprod'), tensor.modek_tprod, Bop, k, X)
            if ok:
                ref = np.moveaxis(np.tensordot(B, X, axes=([1], [k])), 0, k)
                if np.shape(Y) != ref.shape:
                    rec.violation(dict(sig, route='modek_tprod', oracle='result shape'), case, {'got': list(np.shape(Y)), 'want': list(ref.shape)})
                else:
                    rec.check_close('apply_tprod', float(np.abs(Y - ref).max()), 1e-12 * (np.abs(ref).max() + 1), dict(sig, route='modek_tprod'), case)
            return
        ops, mats = [], []
        for f in range(nf):
            if rng.random() < 0.25:
                ops.append(None); mats.append(np.eye(shp_in[f]))
            else:
                A = rng.standard_normal((int(rng.integers(1, 5)), shp_in[f]))
                ops.append(_as_kind(rng, A, str(rng.choice(['ndarray', 'csr', 'linop'])))); mats.append(A)
        rec.case(dict(case, shape=list(X.shape), nones=sum(o is None for o in ops)), nontrivial=X.size > 1)
        ok, Y = guarded(rec, case, dict(sig, route='apply_tprod'), tensor.apply_tprod, ops, X)
        if ok:
            ref = X
            for f in range(nf):
                ref = np.moveaxis(np.tensordot(mats[f], ref, axes=([1], [f])), 0, f)
            if np.shape(Y) != ref.shape:
                rec.violation(dict(sig, route='apply_tprod', oracle='result shape'), case, {'got': list(np.shape(Y)), 'want': list(ref.shape)})
            else:
                rec.check_close('apply_tprod', float(np.abs(Y - ref).max()), 1e-12 * (np.abs(ref).max() + 1), dict(sig, route='apply_tprod'), case)
    elif kind == 'csrslice':
        m = int(rng.integers(1, 9)); n = int(rng.integers(1, 7))
        A = _rand_matrix(rng, m, n, np.float64, density=0.5); Ac = scipy.sparse.csr_matrix(A)
        lo = int(rng.integers(0, m + 1)); hi = int(rng.integers(lo, m + 1))
        rec.case(dict(case, shape=[m, n], rows=[lo, hi]), nontrivial=True)
        x = rng.standard_normal(n); X = rng.standard_normal((n, 2))
        ok, S = guarded(rec, case, dict(sig, route='CSRRowSlice'), utils.CSRRowSlice, Ac, (lo, hi))
        if ok:
            for arg, xx in (('vector', x), ('matrix', X)):
                ok2, y = guarded(rec, case, dict(sig, route='CSRRowSlice.dot', arg=arg), S.dot, xx)
                if ok2:
                    ref = A[lo:hi] @ xx
                    if np.shape(y) != ref.shape:
                        rec.violation(dict(sig, route='CSRRowSlice', oracle='result shape', arg=arg), case, {'got': list(np.shape(y))})
                    elif ref.size:
                        rec.check_close('matvec', float(np.abs(y - ref).max()), 1e-13 * (np.abs(A).sum() + 1), dict(sig, route='CSRRowSlice', arg=arg), case)
        rows = rng.permutation(m)[:int(rng.integers(0, m + 1))]
        ok, S = guarded(rec, case, dict(sig, route='CSRRowSubset'), utils.CSRRowSubset, Ac, rows)
        if ok:
            ok2, y = guarded(rec, case, dict(sig, route='CSRRowSubset.dot'), S.dot, x)
            if ok2:
                ref = A[rows] @ x
                if np.shape(y) != ref.shape:
                    rec.violation(dict(sig, route='CSRRowSubset', oracle='result shape'), case, {'got': list(np.shape(y))})
                elif ref.size:
                    rec.check_close('matvec', float(np.abs(y - ref).max()), 1e-13 * (np.abs(A).sum() + 1), dict(sig, route='CSRRowSubset'), case)
