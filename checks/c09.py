"""C09 — tensor-product fast paths and closed-form Galerkin matrix identities hold.

Oracle: exact rational integrals of the piecewise polynomials (exact Cox-de Boor evaluation at
interior rational nodes + rational Newton-Cotes type weights) for the 1D routines; differential
comparison of the Kronecker path, the identity-geometry generic path, string forms and predefined
forms; spectral and sum identities on the results; the low-rank assembler is held to a multiple
of its requested tolerance.
"""
import os
import numpy as np
from fractions import Fraction

PROPERTY = 'C09'
LEVEL = 'exploration'
RULE = ('1D: random dyadic open knot vectors (degree 0-6, repeated knots), all (du,dv) <= p, pairs of different knot vectors on a common mesh, custom '
        'quadrature grids/nqp, polynomial weight functions; dims 1-3: Kronecker vs identity-geometry generic path vs string/predefined forms on '
        'random spaces (mixed degrees 0-4); identities (symmetry, sum = measure, SPD, kernel = constants) on affine/bilinear/NURBS geometries; '
        'load vectors/inner products/integrals of polynomial data; low-rank assembler on smooth geometries x tol over 6 decades; distinct by '
        'descriptor; non-trivial if the space has >= 2 dofs')
MIN_NONTRIVIAL = {'quick': 200, 'thorough': 4000}
REQUIRED_COUNTERS = ['oracle:exact_1d', 'oracle:exact_1d_asym', 'oracle:paths_agree', 'oracle:identities', 'oracle:exact_functionals', 'oracle:fast_assembler']
VARIANTS = {'quick': ['plain'], 'thorough': ['plain', 'asan']}
WORKERS_SAN = 8
ASSUMPTIONS = ['exact reference: rational arithmetic on dyadic knots', 'functionals under non-affine geometries are compared with a 14-point Gauss reference (float)',
               'low-rank assembler: max entry error <= 100 tol (observed ratio recorded)']

KINDS = ['exact1d', 'exact1d', 'asym1d', 'asym1d', 'paths', 'identities', 'functionals', 'fast']

def cases(tier, seed):
    variant = os.environ.get('VERIF_VARIANT', 'plain')
    n = {'quick': 400, 'thorough': 16000}[tier]
    if variant != 'plain': n = 240
    for i in range(n):
        yield {'kind': KINDS[i % len(KINDS)], 'seed': seed, 'idx': i}

def _exact_biform(kvA, pA, dA, kvB, pB, dB, mesh, wpoly=None):
    """Exact matrix  M[j,i] = int w * D^dA N^A_i * D^dB N^B_j  (rows: B / test, columns: A / trial)."""
    from refmodels import bsp, exactint
    nA = len(kvA) - pA - 1; nB = len(kvB) - pB - 1
    M = [[Fraction(0)] * nA for _ in range(nB)]
    Mabs = [[Fraction(0)] * nA for _ in range(nB)]       # sum of the magnitudes of the terms: the scale rounding errors are relative to
    wdeg = 0 if wpoly is None else len(wpoly) - 1
    deg = max(pA - dA, 0) + max(pB - dB, 0) + wdeg
    xs, ws = exactint.weights01(deg)
    for a, b in zip(mesh[:-1], mesh[1:]):
        h = b - a
        for x, w in zip(xs, ws):
            t = a + h * x
            sA, DA = bsp.basis_derivs(kvA, pA, t, dA); sB, DB = bsp.basis_derivs(kvB, pB, t, dB)
            wv = Fraction(1) if wpoly is None else sum(c * t ** k for k, c in enumerate(wpoly))
            for jj in range(pB + 1):
                vb = DB[dB][jj]
                if vb == 0: continue
                for ii in range(pA + 1):
                    va = DA[dA][ii]
                    if va != 0:
                        M[sB - pB + jj][sA - pA + ii] += h * w * wv * va * vb
                        Mabs[sB - pB + jj][sA - pA + ii] += abs(h * w * wv * va * vb)
    return np.array([[float(v) for v in row] for row in M]), np.array([[float(v) for v in row] for row in Mabs])

def run_case(rec, case):
    {'exact1d': _exact1d, 'asym1d': _asym1d, 'paths': _paths, 'identities': _identities, 'functionals': _functionals, 'fast': _fast}[case['kind']](rec, case)

def _exact1d(rec, case):
    from pyiga import assemble
    from refmodels import bsp
    from verif.gen import rng_for, knot_case, knots_from_case, make_kv
    from verif.api import guarded
    rng = rng_for('C09a', case['seed'], case['idx'])
    kc = knot_case(rng, pmin=0, pmax=6 if case['idx'] % 3 == 0 else 3, max_spans=4, dyadic=True)
    kv = make_kv(kc); p = kc['p']
    kvF = bsp.to_frac(knots_from_case(kc)); mesh = bsp.mesh(kvF)
    du = int(rng.integers(0, p + 1)); dv = int(rng.integers(0, p + 1))
    use_w = bool(rng.random() < 0.4)
    wpoly = [Fraction(int(v), 4) for v in rng.integers(-4, 5, size=int(rng.integers(1, 4)))] if use_w else None
    c = dict(case, kv=kc, du=du, dv=dv, weight=None if wpoly is None else [str(v) for v in wpoly])
    rec.case(c, nontrivial=kv.numdofs >= 2)
    sig = {'route': 'bsp_mixed_deriv_biform_1d', 'weight': use_w, 'du_eq_dv': du == dv}
    ref, refabs = _exact_biform(kvF, p, du, kvF, p, dv, mesh, wpoly)
    if wpoly is None:
        ok, A = guarded(rec, c, sig, assemble.bsp_mixed_deriv_biform_1d, kv, du, dv)
    else:
        wf = lambda x: sum(float(cf) * x ** k for k, cf in enumerate(wpoly))
        deg = 2 * p - du - dv + len(wpoly) - 1
        nqp = deg // 2 + 1
        ok, A = guarded(rec, c, sig, assemble.bsp_mixed_deriv_biform_1d, kv, du, dv, nqp=nqp, weightfunc=wf)
    if ok:
        Ad = A.toarray()
        if Ad.shape != ref.shape:
            rec.violation(dict(sig, oracle='shape'), c, {'got': list(Ad.shape)}); return
        tol = 1e-12 * refabs + 1e-13 * (refabs.max() + 1e-300)
        err = np.abs(Ad - ref); w = np.unravel_index(np.argmax(err / tol), err.shape)
        rec.check_close('exact_1d', float(err[w]), float(tol[w]), sig, c, {'i': int(w[0]), 'j': int(w[1]), 'got': float(Ad[w]), 'ref': float(ref[w])})
    if du == dv == 0 and wpoly is None:
        ok, M = guarded(rec, c, dict(sig, route='bsp_mass_1d'), assemble.bsp_mass_1d, kv)
        if ok: rec.check_close('exact_1d', float(np.abs(M.toarray() - ref).max()), float(1e-12 * (refabs.max() + 1e-300)), dict(sig, route='bsp_mass_1d'), c)
        ok, M = guarded(rec, c, dict(sig, route='mass(1D)'), assemble.mass, kv)
        if ok: rec.check_close('exact_1d', float(np.abs(M.toarray() - ref).max()), float(1e-12 * (refabs.max() + 1e-300)), dict(sig, route='mass(1D)'), c)
    if du == dv == 1 and wpoly is None:
        for name, fn in (('bsp_stiffness_1d', assemble.bsp_stiffness_1d), ('stiffness(1D)', assemble.stiffness)):
            ok, K = guarded(rec, c, dict(sig, route=name), fn, kv)
            if ok: rec.check_close('exact_1d', float(np.abs(K.toarray() - ref).max()), float(1e-12 * (refabs.max() + 1e-300)), dict(sig, route=name), c)

def _asym1d(rec, case):
    from pyiga import assemble, bspline
    from refmodels import bsp
    from verif.gen import rng_for, knot_case, knots_from_case
    from verif.api import guarded
    rng = rng_for('C09b', case['seed'], case['idx'])
    k1 = knot_case(rng, pmin=0, pmax=5, max_spans=4, dyadic=True)
    k2 = dict(k1); k2['p'] = int(rng.integers(0, 6)); k2['mults'] = [int(rng.integers(1, max(k2['p'], 1) + 1)) for _ in k1['mults']]
    kv1 = bspline.KnotVector(knots_from_case(k1), k1['p']); kv2 = bspline.KnotVector(knots_from_case(k2), k2['p'])
    du = int(rng.integers(0, k1['p'] + 1)); dv = int(rng.integers(0, k2['p'] + 1))
    F1 = bsp.to_frac(knots_from_case(k1)); F2 = bsp.to_frac(knots_from_case(k2)); mesh = bsp.mesh(F1)
    mode = int(rng.integers(0, 3))
    c = dict(case, kv1=k1, kv2=k2, du=du, dv=dv, mode=mode)
    rec.case(c, nontrivial=kv1.numdofs * kv2.numdofs >= 2)
    sig = {'route': 'bsp_mixed_deriv_biform_1d_asym', 'mode': ['default', 'refined_grid', 'custom_nqp'][mode], 'p2_gt_p1': k2['p'] > k1['p']}
    ref, refabs = _exact_biform(F1, k1['p'], du, F2, k2['p'], dv, mesh)
    if mode == 0:
        ok, A = guarded(rec, c, sig, assemble.bsp_mixed_deriv_biform_1d_asym, kv1, kv2, du, dv)
    elif mode == 1:
        m = np.array([float(x) for x in mesh]); grid = np.sort(np.concatenate((m, (m[1:] + m[:-1]) / 2)))
        ok, A = guarded(rec, c, sig, assemble.bsp_mixed_deriv_biform_1d_asym, kv1, kv2, du, dv, quadgrid=grid)
    else:
        nqp = (k1['p'] + k2['p'] - du - dv) // 2 + 1 + int(rng.integers(0, 3))
        ok, A = guarded(rec, c, sig, assemble.bsp_mixed_deriv_biform_1d_asym, kv1, kv2, du, dv, nqp=nqp)
    if ok:
        Ad = A.toarray() if hasattr(A, 'toarray') else np.asarray(A)
        # scipy drops trailing empty rows/columns of COO data without an explicit shape: pad to the full size
        full = np.zeros(ref.shape); full[:Ad.shape[0], :Ad.shape[1]] = Ad[:ref.shape[0], :ref.shape[1]]
        if Ad.shape[0] > ref.shape[0] or Ad.shape[1] > ref.shape[1]:
            rec.violation(dict(sig, oracle='shape'), c, {'got': list(Ad.shape), 'want': list(ref.shape)}); return
        tol = 1e-12 * refabs + 1e-13 * (refabs.max() + 1e-300)
        err = np.abs(full - ref); w = np.unravel_index(np.argmax(err / tol), err.shape)
        rec.check_close('exact_1d_asym', float(err[w]), float(tol[w]), sig, c, {'i': int(w[0]), 'j': int(w[1]), 'got': float(full[w]), 'ref': float(ref[w])})
        if Ad.shape != ref.shape and np.abs(ref[Ad.shape[0]:, :]).max(initial=0) + np.abs(ref[:, Ad.shape[1]:]).max(initial=0) == 0:
            rec.count('asym_shape_trimmed_zero_block')
        elif Ad.shape != ref.shape:
            rec.violation(dict(sig, oracle='matrix has size numdofs(kv2) x numdofs(kv1)'), c, {'got': list(Ad.shape), 'want': list(ref.shape)})
    if du == dv == 0 and mode == 0:
        ok, M = guarded(rec, c, dict(sig, route='bsp_mass_1d_asym'), assemble.bsp_mass_1d_asym, kv1, kv2)
        if ok and M.shape == ref.shape: rec.check_close('exact_1d_asym', float(np.abs(M.toarray() - ref).max()), float(1e-12 * (refabs.max() + 1e-300)), dict(sig, route='bsp_mass_1d_asym'), c)
    if du == dv == 1 and mode == 0:
        ok, K = guarded(rec, c, dict(sig, route='bsp_stiffness_1d_asym'), assemble.bsp_stiffness_1d_asym, kv1, kv2)
        if ok and K.shape == ref.shape: rec.check_close('exact_1d_asym', float(np.abs(K.toarray() - ref).max()), float(1e-12 * (refabs.max() + 1e-300)), dict(sig, route='bsp_stiffness_1d_asym'), c)

def _space(rng, dim, pmin=0, pmax=3, max_spans=3):
    from verif.gen import knot_case, make_kv
    kcs = [knot_case(rng, pmin=pmin, pmax=pmax, max_spans=max_spans) for _ in range(dim)]
    return kcs, tuple(make_kv(k) for k in kcs)

def _paths(rec, case):
    from pyiga import assemble, geometry, vform
    from verif.gen import rng_for
    from verif.api import guarded
    rng = rng_for('C09c', case['seed'], case['idx'])
    dim = [2, 2, 3, 1][(case['idx'] // len(KINDS)) % 4]
    which = ['mass', 'stiffness'][int(rng.integers(0, 2))]
    kcs, kvs = _space(rng, dim, pmin=1 if which == 'stiffness' else 0, pmax=3 if dim < 3 else 2, max_spans=3 if dim < 3 else 2)
    c = dict(case, dim=dim, which=which, kvs=kcs)
    rec.case(c, nontrivial=int(np.prod([k.numdofs for k in kvs])) >= 2)
    sig = {'route': 'paths', 'dim': dim, 'which': which}
    ident = geometry.identity(kvs) if dim > 1 else geometry.line_segment(0.0, 1.0)
    results = {}
    fn = getattr(assemble, which)
    ok, A = guarded(rec, c, dict(sig, path='kronecker'), fn, kvs if dim > 1 else kvs[0])
    if ok: results['kronecker'] = A.toarray()
    if dim > 1:
        ok, A = guarded(rec, c, dict(sig, path='generic_identity_geo'), fn, kvs, ident)
        if ok: results['generic_identity_geo'] = A.toarray()
        ok, A = guarded(rec, c, dict(sig, path='predefined_vf'), assemble.assemble, getattr(vform, which + '_vf')(dim), kvs, geo=ident)
        if ok: results['predefined_vf'] = A.toarray()
        for fmt in ('csc', 'coo'):
            ok, A = guarded(rec, c, dict(sig, path='kronecker_' + fmt), fn, kvs, None, fmt)
            if ok: results['kronecker_' + fmt] = A.toarray()
    s = 'u * v * dx' if which == 'mass' else 'inner(grad(u), grad(v)) * dx'
    ok, A = guarded(rec, c, dict(sig, path='string'), assemble.assemble, s, kvs, geo=ident)
    if ok: results['string'] = A.toarray()
    if 'kronecker' not in results: return
    base = results['kronecker']
    for k, v in results.items():
        if k == 'kronecker': continue
        if v.shape != base.shape:
            rec.violation(dict(sig, oracle='paths agree: shape', path=k), c, {}); continue
        rec.check_close('paths_agree', float(np.abs(v - base).max()), 1e-12 * (np.abs(base).max() + 1e-300) * 10, dict(sig, path=k), c)
    if which == 'mass' and dim == 3:
        ok, D = guarded(rec, c, dict(sig, path='divdiv'), assemble.divdiv, kvs)   # smoke: symmetric, kernel contains curl-type? only symmetry
        if ok:
            Dd = D.toarray()
            rec.check_close('paths_agree', float(np.abs(Dd - Dd.T).max()), 1e-12 * (np.abs(Dd).max() + 1), dict(sig, path='divdiv_symmetric'), c)

def _geo(rng, dim, kind):
    from pyiga import geometry, bspline
    if kind == 'affine':
        A = rng.standard_normal((dim, dim)) * 0.4 + np.eye(dim)
        if np.linalg.det(A) < 0 and rng.random() < 0.5: pass     # orientation-reversing maps are admissible
        g = geometry.unit_square() if dim == 2 else geometry.unit_cube()
        return g.apply_matrix(A).translate(rng.standard_normal(dim)), abs(np.linalg.det(A))
    if kind == 'bilinear':
        kv = bspline.make_knots(1, 0.0, 1.0, 1)
        P = np.array([[[0, 0], [1.0, 0.1]], [[0.2, 1.0], [1.3, 1.4]]]) + 0.1 * rng.standard_normal((2, 2, 2))
        x = P[..., 0]; y = P[..., 1]
        # shoelace area of the quadrilateral (corners in order (0,0),(0,1),(1,1),(1,0) of the array)
        pts = [P[0, 0], P[0, 1], P[1, 1], P[1, 0]]
        area = 0.5 * abs(sum(pts[i][0] * pts[(i + 1) % 4][1] - pts[(i + 1) % 4][0] * pts[i][1] for i in range(4)))
        return bspline.BSplineFunc((kv, kv), P), area
    r1 = float(rng.uniform(0.5, 1.5)); r2 = r1 + float(rng.uniform(0.5, 1.5))
    return geometry.quarter_annulus(r1, r2), np.pi * (r2 ** 2 - r1 ** 2) / 4

def _identities(rec, case):
    from pyiga import assemble
    from verif.gen import rng_for
    from verif.api import guarded
    rng = rng_for('C09d', case['seed'], case['idx'])
    dim = int(rng.choice([1, 2, 2, 3]))
    gk = 'none' if dim == 1 else str(rng.choice(['none', 'affine', 'bilinear', 'annulus'] if dim == 2 else ['none', 'affine']))
    kcs, kvs = _space(rng, dim, pmin=0, pmax=3 if dim < 3 else 2, max_spans=3 if dim < 3 else 2)
    c = dict(case, dim=dim, geo=gk, kvs=kcs)
    n = int(np.prod([k.numdofs for k in kvs]))
    rec.case(c, nontrivial=n >= 2)
    sig = {'route': 'identities', 'dim': dim, 'geo': gk}
    geo, measure = (None, 1.0) if gk == 'none' else _geo(rng, dim, gk)
    arg = kvs if dim > 1 else kvs[0]
    ok, M = guarded(rec, c, dict(sig, which='mass'), assemble.mass, arg, geo)
    if ok:
        Md = M.toarray()
        rec.count('oracle:identities')
        if np.abs(Md - Md.T).max() > 1e-14 * np.abs(Md).max(): rec.violation(dict(sig, oracle='mass symmetric'), c, {})
        tolm = 1e-12 * measure * n if gk != 'annulus' else 1e-9 * measure
        if gk != 'annulus' or all(k['p'] >= 2 for k in kcs):
            # (the annulus has a rational Jacobian determinant: the Gauss rule is only accurate, not exact, so it needs a smooth enough rule)
            rec.check_close('mass_sum_is_measure', abs(Md.sum() - measure), tolm if gk != 'annulus' else 1e-3 * measure, dict(sig, oracle='sum of mass entries = measure'), c)
        ev = np.linalg.eigvalsh((Md + Md.T) / 2)
        if not ev.min() > 1e-13 * ev.max(): rec.violation(dict(sig, oracle='mass positive definite'), c, {'min_eig': float(ev.min())})
    if all(k['p'] >= 1 for k in kcs):
        ok, K = guarded(rec, c, dict(sig, which='stiffness'), assemble.stiffness, arg, geo)
        if ok:
            Kd = K.toarray()
            rec.count('oracle:identities')
            sc = np.abs(Kd).max()
            if np.abs(Kd - Kd.T).max() > 1e-13 * sc: rec.violation(dict(sig, oracle='stiffness symmetric'), c, {})
            rec.check_close('stiffness_kernel', float(np.abs(Kd @ np.ones(n)).max()), 1e-11 * sc * n, dict(sig, oracle='K 1 = 0'), c)
            ev = np.linalg.eigvalsh((Kd + Kd.T) / 2)
            if ev[0] < -1e-11 * ev[-1]: rec.violation(dict(sig, oracle='stiffness positive semidefinite'), c, {'min_eig': float(ev[0])})
            if n >= 2 and not ev[1] > 1e-10 * ev[-1]: rec.violation(dict(sig, oracle='kernel of the stiffness matrix is one-dimensional'), c, {'second_eig': float(ev[1])})

def _functionals(rec, case):
    from pyiga import assemble, bspline
    from refmodels import bsp, exactint
    from verif.gen import rng_for, knot_case, knots_from_case, make_kv
    from verif.api import guarded
    rng = rng_for('C09e', case['seed'], case['idx'])
    mode = (case['idx'] // len(KINDS)) % 3
    if mode == 0:
        # 1D: load_vector / inner_products / integrate / project_L2 of polynomial data: exact rationals
        kc = knot_case(rng, pmin=0, pmax=5, max_spans=4, dyadic=True)
        kv = make_kv(kc); p = kc['p']
        deg = int(rng.integers(0, p + 2))
        poly = [Fraction(int(v), 2) for v in rng.integers(-3, 4, size=deg + 1)]
        f = lambda x: sum(float(cf) * x ** k for k, cf in enumerate(poly))
        kvF = bsp.to_frac(knots_from_case(kc)); mesh = bsp.mesh(kvF)
        n = kv.numdofs
        ref = [Fraction(0)] * n; tot = Fraction(0)
        xs, ws = exactint.weights01(p + deg)
        for a, b in zip(mesh[:-1], mesh[1:]):
            for x, w in zip(xs, ws):
                t = a + (b - a) * x
                fv = sum(cf * t ** k for k, cf in enumerate(poly))
                s, D = bsp.basis_derivs(kvF, p, t, 0)
                tot += (b - a) * w * fv
                for j in range(p + 1): ref[s - p + j] += (b - a) * w * fv * D[0][j]
        ref = np.array([float(v) for v in ref])
        c = dict(case, kv=kc, poly=[str(v) for v in poly])
        rec.case(c, nontrivial=n >= 2)
        sig = {'route': 'functionals_1d'}
        sc = np.abs(ref).max() + abs(float(tot)) + 1e-300
        ok, v = guarded(rec, c, dict(sig, fn='load_vector'), bspline.load_vector, kv, f)
        if ok: rec.check_close('exact_functionals', float(np.abs(np.asarray(v) - ref).max()), 1e-12 * sc, dict(sig, fn='load_vector'), c)
        ok, v = guarded(rec, c, dict(sig, fn='inner_products'), assemble.inner_products, kv, f)
        if ok: rec.check_close('exact_functionals', float(np.abs(np.asarray(v).ravel() - ref).max()), 1e-12 * sc, dict(sig, fn='inner_products'), c)
        ok, v = guarded(rec, c, dict(sig, fn='integrate'), assemble.integrate, kv, f)
        if ok: rec.check_close('exact_functionals', abs(float(v) - float(tot)), 1e-12 * sc, dict(sig, fn='integrate'), c)
        return
    # 2D/3D with geometry: compare with a high-order Gauss reference
    from pyiga import geometry
    dim = 2 if mode == 1 else int(rng.choice([2, 3]))
    gk = str(rng.choice(['affine', 'bilinear'])) if dim == 2 else 'affine'
    kcs, kvs = _space(rng, dim, pmin=1, pmax=3 if dim == 2 else 2, max_spans=2)
    geo, measure = _geo(rng, dim, gk)
    cf = rng.standard_normal(dim + 1)
    f = (lambda x, y: cf[0] + cf[1] * x + cf[2] * y) if dim == 2 else (lambda x, y, z: cf[0] + cf[1] * x + cf[2] * y + cf[3] * z)
    c = dict(case, dim=dim, geo=gk, kvs=kcs)
    rec.case(c, nontrivial=True)
    sig = {'route': 'functionals_geo', 'dim': dim, 'geo': gk}
    # reference: tensor Gauss rule with 10 nodes per span
    from refmodels import tp
    gx, gw = [], []
    for kv in kvs:
        m = np.unique(kv.kv); x, w = np.polynomial.legendre.leggauss(10)
        gx.append(np.concatenate([0.5 * (a + b) + 0.5 * (b - a) * x for a, b in zip(m[:-1], m[1:])]))
        gw.append(np.concatenate([0.5 * (b - a) * w for a, b in zip(m[:-1], m[1:])]))
    P = np.asarray(geo.grid_eval(gx), dtype=float); J = np.asarray(geo.grid_jacobian(gx), dtype=float)
    det = np.abs(np.linalg.det(J))
    fv = f(*[P[..., d] for d in range(dim)])
    W = gw[0]
    for w_ in gw[1:]: W = np.multiply.outer(W, w_)
    integrand = fv * det * W
    tot = integrand.sum()
    Cs = [bsp_coll(kv, x) for kv, x in zip(kvs, gx)]
    ref = integrand
    for ax, Cm in enumerate(Cs):
        ref = np.moveaxis(np.tensordot(Cm.T, ref, axes=([1], [ax])), 0, ax)
    sc = np.abs(ref).max() + abs(tot)
    ok, v = guarded(rec, c, dict(sig, fn='inner_products'), assemble.inner_products, kvs, f, True, geo)
    if ok: rec.check_close('exact_functionals', float(np.abs(np.asarray(v) - ref).max()), 1e-11 * sc, dict(sig, fn='inner_products'), c)
    ok, v = guarded(rec, c, dict(sig, fn='integrate'), assemble.integrate, kvs, f, True, geo)
    if ok: rec.check_close('exact_functionals', abs(float(v) - tot), 1e-11 * sc, dict(sig, fn='integrate'), c)
    ok, v = guarded(rec, c, dict(sig, fn='integrate_one'), assemble.integrate, kvs, lambda *x: 1.0 + 0 * x[0], True, geo)
    if ok: rec.check_close('exact_functionals', abs(float(v) - measure), 1e-11 * measure, dict(sig, fn='integrate(1) = measure'), c)

def bsp_coll(kv, x):
    from refmodels import bsp
    return bsp.collocation_dense(kv.kv.tolist(), kv.p, [float(t) for t in x])

def _fast(rec, case):
    import io, contextlib
    from pyiga import assemble, geometry, bspline
    from verif.gen import rng_for
    from verif.api import guarded
    rng = rng_for('C09f', case['seed'], case['idx'])
    dim = 2 if (case['idx'] // len(KINDS)) % 3 else 3
    p = int(rng.integers(1, 4)) if dim == 2 else int(rng.integers(1, 3))
    n = int(rng.integers(3, 9)) if dim == 2 else int(rng.integers(2, 5))
    kvs = dim * (bspline.make_knots(p, 0.0, 1.0, n),)
    if case['idx'] % 3:
        # a different degree and size in every direction
        kvs = tuple(bspline.make_knots(int(rng.integers(1, 4)), 0.0, 1.0, int(rng.integers(2, 7 if dim == 2 else 4))) for _ in range(dim))
    gname = str(rng.choice(['quarter_annulus', 'bspline_quarter_annulus', 'perturbed'])) if dim == 2 else 'twisted_box'
    if gname == 'perturbed':
        st = np.random.get_state(); np.random.seed(int(rng.integers(0, 2 ** 31))); geo = geometry.perturbed_square(3, 0.02); np.random.set_state(st)
    else:
        geo = getattr(geometry, gname)()
    tol = float(10.0 ** rng.uniform(-10, -4))
    which = str(rng.choice(['mass', 'stiffness']))
    c = dict(case, dim=dim, p=[int(k.p) for k in kvs], n=[int(k.numspans) for k in kvs], geo=gname, tol=tol, which=which)
    rec.case(c, nontrivial=True)
    sig = {'route': 'fast_assembler', 'dim': dim, 'which': which}
    ref = getattr(assemble, which)(kvs, geo).toarray()
    np.random.seed(int(rng.integers(0, 2 ** 31)))
    buf = io.StringIO()
    with contextlib.redirect_stdout(buf):
        ok, A = guarded(rec, c, sig, getattr(assemble, which + '_fast'), kvs, geo, tol=tol, maxiter=200, verbose=1)
    # how the cross approximation says it terminated (part of the mechanism signature of a deviation)
    log = buf.getvalue()
    sig = dict(sig, stopped_by='skipcount' if 'Skipped' in log or 'skip count' in log else ('tolerance' if 'tolerance' in log else ('maxiter' if 'aximum iteration' in log else 'unknown')))
    rec.count('fast_stop:' + sig['stopped_by'])
    if ok:
        Ad = A.toarray() if hasattr(A, 'toarray') else np.asarray(A)
        if Ad.shape != ref.shape:
            rec.violation(dict(sig, oracle='shape'), c, {}); return
        err = float(np.abs(Ad - ref).max()); bound = 100 * tol + 1e-12 * np.abs(ref).max()
        if not err <= bound:
            # the known premature stop of the cross approximation depends on the state of rand(): repeat the call; a deviation
            # that comes back every time has another cause
            again = []
            for _ in range(4):
                with contextlib.redirect_stdout(io.StringIO()):
                    ok2, A2 = guarded(rec, c, sig, getattr(assemble, which + '_fast'), kvs, geo, tol=tol, maxiter=200, verbose=0)
                again.append(bool(ok2 and float(np.abs((A2.toarray() if hasattr(A2, 'toarray') else np.asarray(A2)) - ref).max()) > bound))
            sig = dict(sig, reproducible=all(again))
        rec.check_close('fast_assembler', err, bound, sig, c)
