"""C20 — the on-disk compile cache survives crashes and concurrent compilation.

Fault enumeration with an execution monitor: every request runs in a fresh subprocess with a private XDG_CACHE_HOME below the
run's scratch directory; what is observed is the exit status (incl. the signal), the assembled matrix (compared with the
independent reference assembler of C01) and the digest of the module that was imported.
  * crash points: the guarded hook PYIGA_VERIF_COMPILE_FAULT kills the compiling process at each named stage; in addition the
    whole process group (compiler included) is SIGKILLed at random times during the build; singly and in sequences;
  * file faults on the files the build writes (the list is taken from an strace of a real build, so it follows the code):
    truncation to several size classes, deletion, emptying, garbage;
  * races: 2..16 processes started together (random offsets <= 200 ms) on one form / on distinct forms, into an empty cache
    and into one holding the debris of interrupted builds; inotify on the module directory and the per-process stage trace
    (hook PYIGA_VERIF_COMPILE_TRACE) record the interleaving; no completed module may change its content.
"""
import os, sys, json, time, signal, shutil, subprocess, hashlib, glob, re
import numpy as np

PROPERTY = 'C20'
LEVEL = 'fault_enumeration'
RULE = ('3 forms with deterministic generated source (checked by the baseline); stages pyx_written/cythonized/built/published/cache_miss; timed SIGKILL of the process '
        'group at random fractions of the measured build time; file faults {delete, empty, 64-byte header, 1/10/25/50/90 %, all-but-last-byte, garbage} on the published '
        'module and on every file class the strace of a build shows as written; races with 2,4,8,16 processes; a case is one fault/race scenario; non-trivial if '
        'the fault was really injected (the process died at the stage / the file existed) and the follow-up request ran')
MIN_NONTRIVIAL = {'quick': 30, 'thorough': 280}
REQUIRED_COUNTERS = ['stage_kill:died_at_stage', 'timed_kill:killed_during_build', 'file_fault:injected', 'race:processes', 'followup:requests', 'oracle:matrix_vs_reference',
                     'oracle:digest_stable', 'strace:files_written', 'inotify:events', 'hook:trace_lines']
ASSUMPTIONS = ['a crash is a process kill (SIGKILL of the compiling process or its whole group); power loss with unsynced data is out of reach',
               'file faults are applied between processes, never while a process is running']
WORKERS = {'quick': 12, 'thorough': 12}
TIMEOUT = {'quick': 3000, 'thorough': 20000}
STAGES = ['cache_miss', 'pyx_written', 'cythonized', 'built', 'published']

def cases(tier, seed):
    q = tier == 'quick'
    yield {'kind': 'baseline', 'form': 0}
    yield {'kind': 'baseline', 'form': 1}
    yield {'kind': 'baseline', 'form': 2}
    for st in STAGES:
        for form in ((0,) if q else (0, 1, 2)):
            yield {'kind': 'stage_kill', 'stages': [st], 'form': form}
    for seq in ([['pyx_written', 'built'], ['published', 'cythonized']] if q else [[a, b] for a in STAGES for b in STAGES if a != b]):
        yield {'kind': 'stage_kill', 'stages': seq, 'form': 2}
    for i in range(10 if q else 260):
        yield {'kind': 'timed_kill', 'idx': i, 'seed': seed, 'form': i % 3}
    faults = ['delete', 'empty', 'header64', 'p01', 'p10', 'p25', 'p50', 'p90', 'minus1', 'garbage']
    for f in faults:
        for form in ((0,) if q else (0, 1, 2)):
            yield {'kind': 'file_fault', 'target': 'published', 'fault': f, 'form': form}
    for tgt in ('pyx', 'c', 'o', 'so_in_build_dir'):
        for f in (['p50'] if q else ['empty', 'p10', 'p50', 'minus1', 'garbage']):
            yield {'kind': 'file_fault', 'target': tgt, 'fault': f, 'form': 2}
    if not q:
        for i in range(20):
            yield {'kind': 'file_fault_seq', 'idx': i, 'seed': seed, 'form': i % 3}
    for n in ((2, 4, 8, 16) if q else (2, 3, 4, 6, 8, 12, 16, 16, 8, 4)):
        yield {'kind': 'race', 'n': n, 'forms': 'same', 'cache': 'empty', 'seed': seed}
    for n in ((6, 12) if q else (3, 6, 9, 12, 15)):
        yield {'kind': 'race', 'n': n, 'forms': 'distinct', 'cache': 'empty', 'seed': seed}
    for n in ((8,) if q else (4, 8, 16)):
        yield {'kind': 'race', 'n': n, 'forms': 'same', 'cache': 'debris', 'seed': seed}

# ---- helpers ---------------------------------------------------------------------------------------------------------
_CNT = [0]
def _newdir(tag):
    base = os.environ.get('VERIF_SCRATCH_RUN') or '/var/tmp'
    _CNT[0] += 1
    d = os.path.join(base, 'c20-%d-%d-%s' % (os.getpid(), _CNT[0], tag))
    os.makedirs(d, exist_ok=True)
    return d

def _env(xdg, fault=None, trace=None):
    env = dict(os.environ)
    env['XDG_CACHE_HOME'] = xdg
    # temporary files of compilers that get killed stay behind: keep them inside the trial directory, which is removed afterwards
    tmpd = os.path.join(os.path.dirname(os.path.abspath(xdg)), 'tmp'); os.makedirs(tmpd, exist_ok=True); env['TMPDIR'] = tmpd
    env.pop('PYIGA_VERIF_COMPILE_FAULT', None); env.pop('PYIGA_VERIF_COMPILE_TRACE', None)
    if fault: env['PYIGA_VERIF_COMPILE_FAULT'] = fault
    if trace: env['PYIGA_VERIF_COMPILE_TRACE'] = trace
    return env

def _spawn(form, xdg, out, fault=None, trace=None, delay=0.0, log=None):
    lf = open(log or os.devnull, 'ab')
    return subprocess.Popen([sys.executable, '-m', 'c20.child', str(form), out, str(delay)], env=_env(xdg, fault, trace), stdout=lf, stderr=lf, start_new_session=True)

def _wait(p, timeout=600):
    try:
        rc = p.wait(timeout=timeout)
    except subprocess.TimeoutExpired:
        try: os.killpg(p.pid, signal.SIGKILL)
        except Exception: pass
        p.wait(); return 'timeout'
    finally:
        # reap whatever the child left in its session (compiler processes)
        try: os.killpg(p.pid, signal.SIGKILL)
        except Exception: pass
    return rc

def _request(form, xdg, tag, fault=None, trace=None, timeout=600):
    """Run one request to completion: (rc, result dict or None, log tail)."""
    out = os.path.join(xdg, '..', 'out-%s-%d.json' % (tag, _CNT[0])); _CNT[0] += 1
    out = os.path.abspath(out); log = out + '.log'
    p = _spawn(form, xdg, out, fault=fault, trace=trace, log=log)
    rc = _wait(p, timeout)
    res = None
    if os.path.exists(out):
        try: res = json.load(open(out))
        except Exception: res = None
    tail = ''
    try: tail = open(log, 'rb').read()[-700:].decode('utf8', 'replace')
    except Exception: pass
    return rc, res, tail

_REF = {}
def _reference(form):
    if form not in _REF:
        from forms import refasm
        from c20.forms20 import FORMS, problem
        _REF[form] = refasm.reference(FORMS[form], problem(form))
    return _REF[form]

def _rcname(rc):
    if rc == 'timeout': return 'timeout'
    if isinstance(rc, int) and rc < 0:
        try: return signal.Signals(-rc).name
        except Exception: return 'signal%d' % -rc
    if isinstance(rc, int) and rc > 128:
        try: return signal.Signals(rc - 128).name
        except Exception: pass
    return 'exit%s' % rc

def _check_followup(rec, case, sig, form, rc, res, tail, what):
    """The request after a fault must exit 0 with the right matrix."""
    rec.count('followup:requests')
    if rc != 0 or res is None:
        rec.violation(dict(sig, oracle='the request after the fault succeeds', outcome=_rcname(rc)), case, {'what': what, 'log_tail': tail[-400:]}); return False
    R = _reference(form)
    A = np.array(res['A'], dtype=float).reshape(R['A'].shape)
    tol = 1e-10 * (R['Aabs'] + R['Aabs'].max())
    worst = float(np.max(np.abs(A - R['A']) / (tol + 1e-300)))
    rec.count('oracle:matrix_vs_reference'); rec.ratio('matrix_vs_reference', worst, 1.0)
    if not worst <= 1.0:
        rec.violation(dict(sig, oracle='the recovered assembler is correct'), case, {'what': what, 'worst_ratio': worst}); return False
    return True

def _moddir(xdg): return os.path.join(xdg, 'pyiga', 'modules')
def _published(xdg): return sorted(glob.glob(os.path.join(_moddir(xdg), 'mod*.so')))
def _sha(path):
    with open(path, 'rb') as f: return hashlib.sha256(f.read()).hexdigest()

def _apply_fault(path, fault, rng):
    sz = os.path.getsize(path)
    if fault == 'delete': os.unlink(path); return
    if fault == 'garbage':
        data = rng.integers(0, 256, size=max(sz, 1), dtype=np.uint8).tobytes()
        # write through a new inode: the published module may be hard-linked into a build directory
        tmp = path + '.flt'; open(tmp, 'wb').write(data); os.replace(tmp, path); return
    new = {'empty': 0, 'header64': 64, 'p01': sz // 100, 'p10': sz // 10, 'p25': sz // 4, 'p50': sz // 2, 'p90': (sz * 9) // 10, 'minus1': max(sz - 1, 0)}[fault]
    data = open(path, 'rb').read()[:new]
    tmp = path + '.flt'; open(tmp, 'wb').write(data); shutil.copymode(path, tmp); os.replace(tmp, path)

# ---- scenarios ---------------------------------------------------------------------------------------------------------
def _baseline(rec, case):
    """Clean cache: build under strace (which files does a build write?), then two more fresh processes (cache hits, same module)."""
    form = case['form']; d = _newdir('base'); xdg = os.path.join(d, 'xdg'); os.makedirs(xdg)
    sig = {'scenario': 'baseline'}
    out = os.path.join(d, 'out0.json'); st = os.path.join(d, 'strace.txt'); trace = os.path.join(d, 'trace.txt')
    cmd = ['strace', '-f', '-qq', '-e', 'trace=openat,rename,renameat,renameat2,unlink,unlinkat,link,linkat', '-o', st, sys.executable, '-m', 'c20.child', str(form), out]
    p = subprocess.run(cmd, env=_env(xdg, trace=trace), stdout=subprocess.DEVNULL, stderr=subprocess.DEVNULL, timeout=900)
    res = json.load(open(out)) if os.path.exists(out) else None
    ok = _check_followup(rec, case, sig, form, p.returncode, res, '', 'first build under strace')
    classes = {}
    if os.path.exists(st):
        for line in open(st, errors='replace'):
            m = re.search(r'openat\([^,]+, "([^"]+)", ([A-Z_|]+)', line)
            if m and ('O_WRONLY' in m.group(2) or 'O_RDWR' in m.group(2)) and m.group(1).startswith(xdg):
                rel = os.path.relpath(m.group(1), _moddir(xdg)); ext = os.path.splitext(rel)[1] or rel
                where = 'build_dir' if rel.startswith('build-') else 'moddir'
                classes.setdefault('%s:%s' % (where, ext), 0); classes['%s:%s' % (where, ext)] += 1
            m = re.search(r'(linkat|link|rename|renameat2?)\(.*"([^"]+)"\) = 0', line)
            if m and m.group(2).startswith(xdg):
                rel = os.path.relpath(m.group(2), _moddir(xdg)); where = 'build_dir' if rel.startswith('build-') else 'moddir'
                classes.setdefault('%s:%s:%s' % (m.group(1), where, os.path.splitext(rel)[1]), 0)
                classes['%s:%s:%s' % (m.group(1), where, os.path.splitext(rel)[1])] += 1
    rec.count('strace:files_written', sum(classes.values()))
    rec.info.setdefault('strace_write_classes', classes)
    # nothing but the published module may be written into the module directory itself by open-for-writing
    direct = [k for k in classes if k.startswith('moddir:')]
    if direct:
        rec.violation(dict(sig, oracle='the build writes only inside its private build directory; the module is published by link/rename'), case, {'written_in_place': direct})
    if os.path.exists(trace): rec.count('hook:trace_lines', sum(1 for _ in open(trace)))
    # cache hits from two further processes: same module, same digest
    shas = [res['sha']] if res else []
    for k in range(2):
        rc, r2, tail = _request(form, xdg, 'hit%d' % k, trace=trace)
        if _check_followup(rec, case, sig, form, rc, r2, tail, 'cache hit'): shas.append(r2['sha'])
        if r2 and res and r2['modfile'] != res['modfile']:
            rec.violation(dict(sig, oracle='the same form maps to the same module in every process'), case, {'first': res['modfile'], 'then': r2['modfile']})
    rec.count('oracle:digest_stable')
    if len(set(shas)) > 1: rec.violation(dict(sig, oracle='a completed module never changes'), case, {'digests': shas})
    lines = open(trace).read().split() if os.path.exists(trace) else []
    if 'cache_hit' not in lines: rec.count('baseline:no_cache_hit_seen')
    shutil.rmtree(d, ignore_errors=True)
    rec.case(case, nontrivial=ok)

def _stage_kill(rec, case):
    form = case['form']; d = _newdir('stage'); xdg = os.path.join(d, 'xdg'); os.makedirs(xdg)
    sig = {'scenario': 'stage_kill', 'stages': '+'.join(case['stages'])}
    trace = os.path.join(d, 'trace.txt'); injected = True
    for st in case['stages']:
        rc, res, tail = _request(form, xdg, 'kill-' + st, fault=st, trace=trace)
        if rc == -signal.SIGKILL and res is None: rec.count('stage_kill:died_at_stage')
        else:
            injected = False; rec.count('stage_kill:not_reached:' + st)       # e.g. the stage is not passed because the module is already there
    debris = sorted(os.path.relpath(p, _moddir(xdg)).split(os.sep)[0][:6] + '/' + os.path.splitext(p)[1] for p in glob.glob(os.path.join(_moddir(xdg), '**', '*'), recursive=True) if os.path.isfile(p))
    rc, res, tail = _request(form, xdg, 'after', trace=trace)
    ok = _check_followup(rec, case, sig, form, rc, res, tail, {'debris': debris[:12]})
    # and once more (now a cache hit on whatever the recovery published)
    rc2, res2, tail2 = _request(form, xdg, 'again', trace=trace)
    ok = _check_followup(rec, case, sig, form, rc2, res2, tail2, 'second request after recovery') and ok
    rec.count('oracle:digest_stable')
    if res and res2 and res['modfile'] == res2['modfile'] and res['sha'] != res2['sha']:
        rec.violation(dict(sig, oracle='a completed module never changes'), case, {'digests': [res['sha'], res2['sha']]})
    if os.path.exists(trace): rec.count('hook:trace_lines', sum(1 for _ in open(trace)))
    shutil.rmtree(d, ignore_errors=True)
    rec.case(case, nontrivial=injected and ok)

_BUILD_S = [12.0]
def _timed_kill(rec, case):
    from verif.gen import rng_for
    rng = rng_for('C20t', case['seed'], case['idx'])
    form = case['form']; d = _newdir('timed'); xdg = os.path.join(d, 'xdg'); os.makedirs(xdg)
    sig = {'scenario': 'timed_kill'}
    trace = os.path.join(d, 'trace.txt'); out = os.path.join(d, 'out-k.json')
    nkills = 1 if rng.random() < 0.7 else 2
    killed_during = 0; fracs = []
    for k in range(nkills):
        p = _spawn(form, xdg, out, trace=trace, log=os.path.join(d, 'k.log'))
        # wait until the build has started (first trace line), then kill after a random part of a typical build time
        t0 = time.time()
        while time.time() - t0 < 120 and not os.path.exists(trace) and p.poll() is None: time.sleep(0.05)
        if rng.random() < 0.5:
            # anchored on a stage of the trace (independent of how fast this machine builds): shortly after the stage was passed;
            # after 'cythonized' this is inside the C compilation, which takes several seconds everywhere
            st = ['cache_miss', 'pyx_written', 'cythonized', 'cythonized'][int(rng.integers(0, 4))]
            while time.time() - t0 < 240 and p.poll() is None:
                try:
                    if any(l.split()[1] == st for l in open(trace)): break
                except Exception: pass
                time.sleep(0.05)
            d_ = float(rng.uniform(0.0, 2.0 if st == 'cythonized' else 0.5)); fracs.append('%s+%.2fs' % (st, d_))
            time.sleep(d_)
        else:
            frac = float(rng.uniform(0.0, 1.05)); fracs.append(round(frac, 3))
            time.sleep(frac * _BUILD_S[0])
        alive = p.poll() is None
        try: os.killpg(p.pid, signal.SIGKILL)
        except Exception: pass
        p.wait()
        if alive and not os.path.exists(out): killed_during += 1
    if killed_during: rec.count('timed_kill:killed_during_build', killed_during)
    else: rec.count('timed_kill:finished_before_kill')
    stages_seen = [l.split()[1] for l in open(trace)] if os.path.exists(trace) else []
    rc, res, tail = _request(form, xdg, 'after', trace=trace)
    ok = _check_followup(rec, case, sig, form, rc, res, tail, {'kill_fractions': fracs, 'stages_before_kill': stages_seen[-4:]})
    if res: _BUILD_S[0] = 0.7 * _BUILD_S[0] + 0.3 * max(2.0, res['compile_s']) if res['compile_s'] > 1.0 else _BUILD_S[0]
    if os.path.exists(trace): rec.count('hook:trace_lines', sum(1 for _ in open(trace)))
    shutil.rmtree(d, ignore_errors=True)
    rec.case(dict(case, kill_fractions=fracs), nontrivial=bool(killed_during) and ok)

def _prepare(form, d, state):
    """Cache in a given state: 'complete' (module published) or 'interrupted' (killed after the build, before publishing: build directory with all intermediate files)."""
    xdg = os.path.join(d, 'xdg'); os.makedirs(xdg)
    if state == 'complete':
        rc, res, tail = _request(form, xdg, 'prep')
        return xdg, (rc == 0 and res is not None), res
    rc, res, tail = _request(form, xdg, 'prep', fault='built')
    return xdg, rc == -signal.SIGKILL, None

def _file_fault(rec, case):
    form = case['form']; d = _newdir('fault'); rng = np.random.default_rng(7)
    tgt = case['target']; fault = case['fault']
    sig = {'scenario': 'file_fault', 'target': tgt, 'fault': 'truncate' if fault.startswith('p') or fault in ('header64', 'minus1') else fault}
    xdg, ready, res0 = _prepare(form, d, 'complete' if tgt == 'published' else 'interrupted')
    if not ready:
        rec.count('file_fault:state_not_reached'); rec.case(case, nontrivial=False); shutil.rmtree(d, ignore_errors=True); return
    if tgt == 'published': files = _published(xdg)
    else:
        ext = {'pyx': '.pyx', 'c': '.c', 'o': '.o', 'so_in_build_dir': '.so'}[tgt]
        files = [p for p in glob.glob(os.path.join(_moddir(xdg), 'build-*', '**', '*' + ext), recursive=True) if os.path.isfile(p)]
    if not files:
        rec.count('file_fault:no_such_file:' + tgt); rec.case(case, nontrivial=False); shutil.rmtree(d, ignore_errors=True); return
    sizes = [os.path.getsize(f) for f in files]
    for f in files: _apply_fault(f, fault, rng)
    rec.count('file_fault:injected', len(files))
    rc, res, tail = _request(form, xdg, 'after')
    ok = _check_followup(rec, dict(case, size=sizes[0]), dict(sig), form, rc, res, tail, {'file_size': sizes[0], 'fault': fault})
    rc2, res2, tail2 = _request(form, xdg, 'again')
    ok = _check_followup(rec, case, dict(sig, request='second'), form, rc2, res2, tail2, 'second request after recovery') and ok
    shutil.rmtree(d, ignore_errors=True)
    rec.case(case, nontrivial=ok)

def _file_fault_seq(rec, case):
    from verif.gen import rng_for
    rng = rng_for('C20s', case['seed'], case['idx']); form = case['form']; d = _newdir('fseq')
    sig = {'scenario': 'file_fault_sequence'}
    xdg, ready, _ = _prepare(form, d, 'complete')
    steps = []; ok = ready
    for k in range(int(rng.integers(2, 4))):
        files = _published(xdg)
        fault = ['delete', 'empty', 'header64', 'p50', 'p90', 'minus1', 'garbage'][int(rng.integers(0, 7))]
        if files:
            _apply_fault(files[0], fault, rng); rec.count('file_fault:injected'); steps.append(fault)
        if rng.random() < 0.5:
            st = STAGES[int(rng.integers(1, len(STAGES)))]
            _request(form, xdg, 'k%d' % k, fault=st); steps.append('kill@' + st)
        rc, res, tail = _request(form, xdg, 'r%d' % k)
        lastf = [x for x in steps if not x.startswith('kill@')][-1:] or ['none']
        sigk = dict(sig, target='published', fault='truncate' if lastf[0].startswith('p') or lastf[0] in ('header64', 'minus1') else lastf[0])
        ok = _check_followup(rec, case, sigk, form, rc, res, tail, {'steps': list(steps)}) and ok
    shutil.rmtree(d, ignore_errors=True)
    rec.case(dict(case, steps=steps), nontrivial=ok)

def _race(rec, case):
    from verif.gen import rng_for
    n = case['n']; rng = rng_for('C20r', case['seed'], n, case['forms'], case['cache'])
    d = _newdir('race'); xdg = os.path.join(d, 'xdg'); os.makedirs(_moddir(xdg))
    sig = {'scenario': 'race', 'forms': case['forms'], 'cache': case['cache']}
    if case['cache'] == 'debris':
        # debris of interrupted builds of the same form: one killed before publishing, one killed right after cythonizing
        _request(0, xdg, 'deb1', fault='built'); _request(0, xdg, 'deb2', fault='cythonized')
    trace = os.path.join(d, 'trace.txt'); ev = os.path.join(d, 'inotify.txt')
    ino = subprocess.Popen(['inotifywait', '-m', '-q', '--format', '%T %f %e', '--timefmt', '%s', '-e', 'create,moved_to,delete,close_write,modify,attrib', _moddir(xdg)],
                           stdout=open(ev, 'w'), stderr=subprocess.DEVNULL)
    time.sleep(0.3)
    forms = [0] * n if case['forms'] == 'same' else [k % 3 for k in range(n)]
    procs = []
    for k in range(n):
        out = os.path.join(d, 'out-%d.json' % k)
        procs.append((k, forms[k], out, _spawn(forms[k], xdg, out, trace=trace, delay=float(rng.uniform(0, 0.2)), log=os.path.join(d, 'log-%d.txt' % k))))
    rec.count('race:processes', n)
    ok = True; results = {}
    for k, form, out, p in procs:
        rc = _wait(p, 900)
        res = json.load(open(out)) if os.path.exists(out) else None
        tail = ''
        try: tail = open(os.path.join(d, 'log-%d.txt' % k), 'rb').read()[-500:].decode('utf8', 'replace')
        except Exception: pass
        ok = _check_followup(rec, dict(case, process=k), sig, form, rc, res, tail, 'racing process %d of %d' % (k, n)) and ok
        if res: results[k] = res
    time.sleep(0.3); ino.terminate(); ino.wait()
    # digests: every process that used module X saw the same content, and that is what is there now
    bymod = {}
    for k, r in results.items(): bymod.setdefault(r['modfile'], set()).add(r['sha'])
    rec.count('oracle:digest_stable', len(bymod))
    for mf, shas in bymod.items():
        final = _sha(mf) if os.path.exists(mf) else None
        if len(shas) > 1 or final not in shas:
            rec.violation(dict(sig, oracle='a completed module never changes'), case, {'module': os.path.basename(mf), 'digests_seen': sorted(shas), 'final': final}); ok = False
    if case['forms'] == 'same' and len(bymod) > 1:
        rec.violation(dict(sig, oracle='the same form maps to the same module in every process'), case, {'modules': sorted(os.path.basename(m) for m in bymod)}); ok = False
    # inotify trace: events on published names after their creation
    events = [l.split() for l in open(ev)] if os.path.exists(ev) else []
    rec.count('inotify:events', len(events))
    pub = {}
    for e in events:
        if len(e) >= 3 and re.match(r'mod[0-9a-f]+\..*\.so$', e[1]): pub.setdefault(e[1], []).append(e[2])
    for name, evs in pub.items():
        later = [x for x in evs[1:] if any(t in x for t in ('MOVED_TO', 'MODIFY', 'CLOSE_WRITE', 'DELETE', 'CREATE'))]
        if later: rec.count('race:published_name_touched_again', len(later))
    # interleaving of the stage events of the processes
    if os.path.exists(trace):
        lines = [l.split() for l in open(trace)]
        rec.count('hook:trace_lines', len(lines))
        pids = {}
        seq = tuple((pids.setdefault(l[0], len(pids)), l[1]) for l in sorted(lines, key=lambda l: float(l[2])))
        rec.count('race:interleavings_recorded')
        rec.info.setdefault('sample_interleaving', [list(x) for x in seq[:40]])
        builders = sum(1 for l in lines if l[1] == 'built'); publishers = sum(1 for l in lines if l[1] == 'published')
        rec.count('race:builds_completed', builders); rec.count('race:publications', publishers)
    shutil.rmtree(d, ignore_errors=True)
    rec.case(case, nontrivial=ok and len(results) == n)

def run_case(rec, case):
    {'baseline': _baseline, 'stage_kill': _stage_kill, 'timed_kill': _timed_kill, 'file_fault': _file_fault, 'file_fault_seq': _file_fault_seq, 'race': _race}[case['kind']](rec, case)
