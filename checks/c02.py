"""C02 — B-spline basis evaluation is exact, local, non-negative and sums to one.

Oracle: exact rational Cox-de Boor recursion (refmodels.bsp with Fractions) on the knot
vector converted exactly; every pyiga evaluation route is compared with it at the API boundary.
"""
import os
import numpy as np
from fractions import Fraction

PROPERTY = 'C02'
LEVEL = 'exploration'
RULE = ('random open knot vectors (degree 0..12, 1..8 spans with ratios up to 1e8, interior multiplicities 1..p) x '
        'points (random interior, every knot, both ends, adjacent floats of every knot) x derivative orders 0..p+2; '
        'a case is one knot vector; distinct by (p, knots); non-trivial if it has >= 1 interior knot or p >= 1; plus an '
        'exhaustively enumerated small family (p<=3, <=3 spans, all multiplicity patterns) in the thorough tier')
MIN_NONTRIVIAL = {'quick': 100, 'thorough': 2000}
REQUIRED_COUNTERS = ['oracle:active_deriv', 'oracle:collocation', 'oracle:single_ev', 'oracle:unsorted_points', 'points']
VARIANTS = {'quick': ['plain'], 'thorough': ['plain', 'asan']}
WORKERS_SAN = 8
ASSUMPTIONS = ['exact reference: Cox-de Boor recursion in fractions.Fraction on the float knots converted exactly',
               'tolerance 64(p+1)(k+1) eps x Sum|terms| of the derivative recursion (forward error bound)',
               'asan variant (thorough): same workload on bspline_cy built with -fsanitize=address,undefined']
EPS = 2.220446049250313e-16
TINY = 1e-200     # absolute floor: below this, underflow (denormal points next to a knot at 0) dominates

def cases(tier, seed):
    from verif.gen import rng_for, knot_case
    variant = os.environ.get('VERIF_VARIANT', 'plain')
    n = {'quick': 320, 'thorough': 20000}[tier]
    if variant != 'plain':
        n = 600
    for i in range(n):
        rng = rng_for('C02', seed, i)
        wild = (i % 3 == 0)
        pmax = 12 if i % 4 == 0 else 5
        kc = knot_case(rng, pmin=0, pmax=pmax, max_spans=8, wild=wild)
        kc['kind'] = 'random'; kc['idx'] = i; kc['seed'] = seed
        yield kc
    if tier == 'thorough' and variant == 'plain':
        # exhaustive small family
        import itertools
        idx = 0
        for p in range(0, 4):
            for nsp in range(1, 4):
                for breaks in ([0.0, 1.0], [0.0, 0.25, 1.0], [0.0, 0.5, 0.625, 1.0]):
                    if len(breaks) - 1 != nsp: continue
                    for mults in itertools.product(range(1, max(1, p) + 1), repeat=nsp - 1):
                        yield {'p': p, 'breaks': breaks, 'mults': list(mults), 'kind': 'exhaustive', 'idx': idx, 'seed': 0}
                        idx += 1

def _points(kc, kvarr):
    from verif.gen import rng_for
    rng = rng_for('C02pts', kc.get('seed', 0), kc.get('idx', 0))
    a, b = kvarr[0], kvarr[-1]
    pts = list(rng.uniform(a, b, size=10))
    for t in sorted(set(kvarr.tolist())):
        pts.append(t)
        lo = np.nextafter(t, -np.inf); hi = np.nextafter(t, np.inf)
        if lo >= a: pts.append(float(lo))
        if hi <= b: pts.append(float(hi))
    br = kc['breaks']
    for l, r in zip(br[:-1], br[1:]):
        pts.append(0.5 * (l + r))
    return np.array(sorted(set(float(x) for x in pts)))

def run_case(rec, kc):
    from pyiga import bspline, assemble_tools
    from refmodels import bsp
    from verif.gen import knots_from_case
    from verif.api import guarded
    kvarr = knots_from_case(kc)
    p = kc['p']
    kv = bspline.KnotVector(kvarr.copy(), p)
    n = kv.numdofs
    rec.case({'p': p, 'breaks': kc['breaks'], 'mults': kc['mults']}, nontrivial=(p >= 1 or len(kc['breaks']) > 2))
    kvF = bsp.to_frac(kvarr)
    xs = _points(kc, kvarr)
    nder = p + 2
    rec.count('points', len(xs))
    # ---- exact reference table
    spans = []
    REF = np.zeros((nder + 1, p + 1, len(xs)))
    BND = np.zeros((nder + 1, p + 1, len(xs)))
    for c, x in enumerate(xs):
        span, D, B = bsp.basis_derivs(kvF, p, Fraction(float(x)), nder, with_bound=True)
        spans.append(span)
        for k in range(nder + 1):
            for j in range(p + 1):
                REF[k, j, c] = float(D[k][j])
                BND[k, j, c] = B[k][j]
        # exact structural facts of the reference itself (sanity of the oracle)
        assert sum(D[0]) == 1 and all(v >= 0 for v in D[0])
    spans = np.array(spans)
    first = spans - p
    sig0 = {'kind': kc.get('kind')}
    tolfac = 64.0 * (p + 1) * EPS

    def cmp(name, got, k_axis_first=True):
        got = np.asarray(got)
        for k in range(got.shape[0]):
            tol = tolfac * (k + 1) * BND[min(k, nder)] + TINY
            err = np.abs(got[k] - REF[k])
            r = err / tol
            worst = np.unravel_index(np.nanargmax(np.where(np.isnan(r), np.inf, r)), r.shape)
            rec.check_close(name, float(np.where(np.isnan(err[worst]), np.inf, err[worst])), float(tol[worst]),
                            dict(sig0, route=name, order=('0' if k == 0 else ('<=p' if k <= p else '>p'))), kc,
                            {'k': k, 'j': int(worst[0]), 'x': float(xs[worst[1]]), 'got': float(got[k][worst]), 'ref': float(REF[k][worst])})

    # ---- route: active_deriv (array, scalar, non-contiguous)
    ok, AD = guarded(rec, kc, dict(sig0, route='active_deriv'), bspline.active_deriv, kv, xs, nder)
    ok_ad = ok
    if ok:
        AD = np.asarray(AD)
        cmp('active_deriv', AD)
        # exact structural properties on what was returned
        if np.any(AD[0] < 0):
            rec.violation(dict(sig0, route='active_deriv', oracle='nonneg'), kc, {'min': float(AD[0].min())})
        rec.count('oracle:nonneg')
        s0 = np.abs(AD[0].sum(axis=0) - 1.0).max()
        rec.check_close('partition_of_unity', float(s0), tolfac, dict(sig0, route='active_deriv'), kc)
        for k in range(1, nder + 1):
            sk = np.abs(AD[k].sum(axis=0))
            tol = tolfac * (k + 1) * BND[k].sum(axis=0) + TINY
            i = int(np.argmax(sk / tol))
            rec.check_close('deriv_sum_zero', float(sk[i]), float(tol[i]), dict(sig0, route='active_deriv'), kc, {'k': k})
        if np.any(AD[p + 1:] != 0):
            rec.violation(dict(sig0, route='active_deriv', oracle='order>p vanishes'), kc, {'max': float(np.abs(AD[p+1:]).max())})
        rec.count('oracle:order_gt_p')
    xs2 = np.repeat(xs, 2)[::2]    # non-contiguous view with the same values
    ok, AD2 = guarded(rec, kc, dict(sig0, route='active_deriv_noncontig'), bspline.active_deriv, kv, xs2, min(nder, 2))
    if ok and AD is not None:
        if not np.array_equal(np.asarray(AD2), AD[:min(nder, 2) + 1]):
            rec.violation(dict(sig0, route='active_deriv_noncontig', oracle='same as contiguous'), kc, {})
        rec.count('oracle:noncontig')
    # scalar form: all calls first, comparison afterwards -- a result must stay what it was when later calls are made
    held = []
    for c in (0, len(xs) // 2, len(xs) - 1):
        ok, ADs = guarded(rec, kc, dict(sig0, route='active_deriv_scalar'), bspline.active_deriv, kv, float(xs[c]), nder)
        if ok: held.append((c, ADs, np.array(ADs, copy=True)))
    for c, ADs, snap in held:
        if not np.array_equal(np.asarray(ADs), snap):
            rec.violation(dict(sig0, route='active_deriv_scalar', oracle='a returned result is not changed by later calls'), kc, {'x': float(xs[c])}); break
        if AD is not None:
            if not np.array_equal(snap, AD[:, :, c]):
                rec.violation(dict(sig0, route='active_deriv_scalar', oracle='same as array'), kc, {'x': float(xs[c])})
            rec.count('oracle:scalar_arg')
    heldE = []
    for c in (0, len(xs) - 1, len(xs) // 2):
        ok, AEs_ = guarded(rec, kc, dict(sig0, route='active_ev_scalar'), bspline.active_ev, kv, float(xs[c]))
        if ok: heldE.append((c, AEs_, np.array(AEs_, copy=True)))
    for c, AEs_, snap in heldE:
        rec.count('oracle:results_not_aliased')
        if not np.array_equal(np.asarray(AEs_), snap):
            rec.violation(dict(sig0, route='active_ev_scalar', oracle='a returned result is not changed by later calls'), kc, {'x': float(xs[c])}); break
    # ---- route: active_ev
    ok, AE = guarded(rec, kc, dict(sig0, route='active_ev'), bspline.active_ev, kv, xs)
    if ok:
        cmp('active_ev', np.asarray(AE)[None])
    ok, AEs = guarded(rec, kc, dict(sig0, route='active_ev_scalar'), bspline.active_ev, kv, float(xs[1]))
    if ok:
        cmp_s = np.abs(np.asarray(AEs) - REF[0, :, 1]).max()
        rec.check_close('active_ev_scalar', float(cmp_s), float(tolfac * BND[0, :, 1].max()), dict(sig0, route='active_ev_scalar'), kc)
    # ---- first active / findspan
    for c, x in enumerate(xs):
        fa = kv.first_active_at(float(x)); fs = kv.findspan(float(x))
        rec.count('oracle:first_active')
        if fa != first[c] or fs != spans[c]:
            rec.violation(dict(sig0, route='first_active_at', oracle='span'), kc,
                          {'x': float(x), 'first_active': int(fa), 'findspan': int(fs), 'ref_span': int(spans[c])})
            break
    perm = np.random.default_rng(len(xs) * 7919 + p).permutation(len(xs))
    if ok_ad:
        okp, ADp = guarded(rec, kc, dict(sig0, route='active_deriv_unsorted'), bspline.active_deriv, kv, xs[perm], nder)
        if okp:
            rec.count('oracle:unsorted_points')
            if not np.array_equal(np.asarray(ADp), np.asarray(AD)[..., perm]):
                rec.violation(dict(sig0, route='active_deriv', oracle='result does not depend on the order of the evaluation points'), kc, {})
    # ---- route: single_ev (all functions, array and scalar) incl. zero outside the active ones
    FULL = np.zeros((n, len(xs)))
    FB = np.zeros((n, len(xs)))
    for c in range(len(xs)):
        FULL[first[c]:first[c] + p + 1, c] = REF[0, :, c]
        FB[first[c]:first[c] + p + 1, c] = BND[0, :, c]
    for i in range(n):
        ok, SE = guarded(rec, kc, dict(sig0, route='single_ev'), bspline.single_ev, kv, i, xs)
        if not ok: break
        SE = np.asarray(SE)
        err = np.abs(SE - FULL[i]); tol = tolfac * FB[i] + TINY
        outside = (FB[i] == 0)
        if np.any(SE[outside] != 0):
            c = int(np.flatnonzero(outside & (SE != 0))[0])
            rec.violation(dict(sig0, route='single_ev', oracle='zero outside support'), kc, {'i': i, 'x': float(xs[c]), 'got': float(SE[c])})
        c = int(np.argmax(err / tol))
        rec.check_close('single_ev', float(err[c]), float(tol[c]), dict(sig0, route='single_ev'), kc, {'i': i, 'x': float(xs[c]), 'got': float(SE[c]), 'ref': float(FULL[i, c])})
        v = bspline.single_ev(kv, i, float(xs[len(xs) // 3]))
        if v != SE[len(xs) // 3]:
            rec.violation(dict(sig0, route='single_ev_scalar', oracle='same as array'), kc, {'i': i})
        # evaluation points in arbitrary order: the result follows the points
        okp, SEp = guarded(rec, kc, dict(sig0, route='single_ev_unsorted'), bspline.single_ev, kv, i, xs[perm])
        if okp:
            rec.count('oracle:unsorted_points')
            if not np.array_equal(np.asarray(SEp), SE[perm]):
                c = int(np.flatnonzero(np.asarray(SEp) != SE[perm])[0])
                rec.violation(dict(sig0, route='single_ev', oracle='result does not depend on the order of the evaluation points'), kc,
                              {'i': i, 'x': float(xs[perm][c]), 'got': float(np.asarray(SEp)[c]), 'sorted_order_value': float(SE[perm][c])})
    # ---- route: collocation / collocation_derivs / *_info / compute_values_derivs
    ok, C = guarded(rec, kc, dict(sig0, route='collocation'), bspline.collocation, kv, xs)
    if ok:
        Cd = C.toarray()
        err = np.abs(Cd.T - FULL); tol = tolfac * FB + TINY
        if np.any(Cd.T[FB == 0] != 0):
            rec.violation(dict(sig0, route='collocation', oracle='zero outside support'), kc, {})
        w = np.unravel_index(np.argmax(err / tol), err.shape)
        rec.check_close('collocation', float(err[w]), float(tol[w]), dict(sig0, route='collocation'), kc, {'i': int(w[0]), 'x': float(xs[w[1]])})
        if C.shape != (len(xs), n):
            rec.violation(dict(sig0, route='collocation', oracle='shape'), kc, {'shape': list(C.shape)})
    kd = min(nder, 3)
    ok, CD = guarded(rec, kc, dict(sig0, route='collocation_derivs'), bspline.collocation_derivs, kv, xs, kd)
    if ok:
        for k in range(kd + 1):
            Fk = np.zeros((n, len(xs))); Bk = np.zeros((n, len(xs)))
            for c in range(len(xs)):
                Fk[first[c]:first[c] + p + 1, c] = REF[k, :, c]; Bk[first[c]:first[c] + p + 1, c] = BND[k, :, c]
            err = np.abs(CD[k].toarray().T - Fk); tol = tolfac * (k + 1) * Bk + TINY
            w = np.unravel_index(np.argmax(np.where(Bk > 0, err / tol, np.where(err > 0, np.inf, 0))), err.shape)
            rec.check_close('collocation_derivs', float(err[w]), float(tol[w]) if Bk[w] > 0 else 0.0,
                            dict(sig0, route='collocation_derivs'), kc, {'k': k, 'i': int(w[0]), 'x': float(xs[w[1]])})
        ok2, CVD = guarded(rec, kc, dict(sig0, route='compute_values_derivs'), assemble_tools.compute_values_derivs, kv, xs, kd)
        if ok2:
            ref = np.stack([CD[k].toarray().T for k in range(kd + 1)], axis=-1)
            rec.count('oracle:compute_values_derivs')
            if CVD.shape != (n, len(xs), kd + 1) or not np.array_equal(CVD, ref) or not CVD.flags['C_CONTIGUOUS']:
                rec.violation(dict(sig0, route='compute_values_derivs', oracle='axes (function, point, derivative)'), kc, {'shape': list(CVD.shape)})
    ok, (idx, vals) = guarded(rec, kc, dict(sig0, route='collocation_derivs_info'), bspline.collocation_derivs_info, kv, xs, kd) if True else (False, (None, None))
    if ok:
        rec.count('oracle:collocation_info')
        if not np.array_equal(np.asarray(idx), first):
            rec.violation(dict(sig0, route='collocation_derivs_info', oracle='first active index'), kc, {})
        if AD is not None and not np.array_equal(np.asarray(vals), AD[:kd + 1].swapaxes(-2, -1)):
            rec.violation(dict(sig0, route='collocation_derivs_info', oracle='values'), kc, {})
    # ---- route: spline evaluation ev / deriv (scipy splev behind it) with random coefficients
    from verif.gen import rng_for
    rng = rng_for('C02coef', kc.get('seed', 0), kc.get('idx', 0))
    coef = rng.standard_normal(n)
    for k in list(range(0, min(p, 3) + 1)) + [p + 1, p + 2]:
        refv = np.zeros(len(xs)); bv = np.zeros(len(xs))
        if k <= p:
            for c in range(len(xs)):
                refv[c] = np.dot(coef[first[c]:first[c] + p + 1], REF[k, :, c])
                bv[c] = np.dot(np.abs(coef[first[c]:first[c] + p + 1]), BND[k, :, c])
        else:
            rec.count('oracle:deriv_order_gt_p')          # derivatives of order > p of a piecewise polynomial of degree p vanish
        if k == 0:
            ok, got = guarded(rec, kc, dict(sig0, route='ev'), bspline.ev, kv, coef, xs)
        else:
            ok, got = guarded(rec, kc, dict(sig0, route='deriv'), bspline.deriv, kv, coef, k, xs)
        if ok:
            err = np.abs(np.asarray(got) - refv); tol = 4 * tolfac * (k + 1) * bv + TINY
            c = int(np.argmax(err / tol))
            rec.check_close('ev' if k == 0 else 'deriv', float(err[c]), float(tol[c]),
                            dict(sig0, route='ev' if k == 0 else 'deriv', atknot=bool(xs[c] in kvarr)), kc,
                            {'k': k, 'x': float(xs[c]), 'got': float(np.asarray(got)[c]), 'ref': float(refv[c])})
