"""C04 — hierarchical spaces stay well-formed under every refinement history.

Monitor: icontract postconditions attached from the harness to the real HSpace.__init__ and
HSpace.refine (patched in place, so copies and spaces created inside pyiga are covered too).  Each
evaluation updates a shadow model (refmodels.hier: refinement regions only, everything derived by
definition) from what crosses the API boundary - the dictionary refine() returns - and compares
the live state with it.
"""
import itertools, os
import numpy as np

PROPERTY = 'C04'
LEVEL = 'exploration'
RULE = ('exhaustive: all sequences of up to 3 refine calls over non-empty subsets (size-capped, cap reported) of the active cells for 1D meshes with '
        '2-4 coarse cells and up to 2 calls for 2D 2x2 meshes, p 1-3, disparity inf/1/2; random: histories of length <= 6 in 1-3D, p 1-4, disparity '
        '1/2/3/inf, marks as set/list/tuple/mixed, multi-level marks in one call, refine_region predicates; every refine call is one evaluation; '
        'distinct by the final (active cells, active functions) state; non-trivial if the state has >= 2 levels')
MIN_NONTRIVIAL = {'quick': 300, 'thorough': 6000}
REQUIRED_COUNTERS = ['contract:init', 'contract:refine', 'oracle:sets', 'oracle:tiling', 'oracle:independence', 'oracle:thb_pu', 'oracle:transforms',
                     'oracle:disparity', 'oracle:incidence', 'oracle:queries', 'oracle:multi_level_supports']
TIMEOUT = {'quick': 3000, 'thorough': 14000}
ASSUMPTIONS = ['the shadow model is driven by the dictionary refine() returns (the cells actually refined); minimality of that set is not claimed by the property',
               'rank / THB checks use dense linear algebra on spaces with <= 400 finest-level dofs']
_state = {'case': None, 'heavy': True}

class PostBroken(Exception):
    pass

def _bad(rec, what, hs, **w):
    case = dict(_state.get('case') or {})
    case['history_so_far'] = getattr(hs, '_verif_hist', None)
    sig = {'oracle': what, 'disparity_finite': bool(np.isfinite(hs.disparity)), 'truncate': bool(hs.truncate), 'dim': int(hs.dim)}
    rec.violation(sig, case, w)

def _cmp_sets(rec, hs, sh):
    rec.count('oracle:sets')
    L = max(hs.numlevels, sh.numlevels)
    for l in range(L):
        ha = set(map(tuple, hs.active_cells(l))) if l < hs.numlevels else set()
        hd = set(map(tuple, hs.deactivated_cells(l))) if l < hs.numlevels else set()
        sa = sh.active_cells(l) if l < sh.numlevels else set()
        sd = (sh.deactivated_cells(l) & sh.omega[l]) if l < sh.numlevels else set()
        if ha != sa or hd != sd:
            _bad(rec, 'active/deactivated cells equal the refinement-region model', hs, level=l, extra=sorted(ha - sa)[:4], missing=sorted(sa - ha)[:4]); return False
        fa, fd = (sh.functions(l) if l < sh.numlevels else (set(), set()))
        haf = set(map(tuple, hs.actfun[l])) if l < hs.numlevels else set()
        hdf = set(map(tuple, hs.deactfun[l])) if l < hs.numlevels else set()
        if haf != fa:
            _bad(rec, 'function active iff support in Omega_l and not in Omega_{l+1}', hs, level=l, extra=sorted(haf - fa)[:4], missing=sorted(fa - haf)[:4]); return False
        if hdf != fd:
            _bad(rec, 'function deactivated iff support in Omega_l and in Omega_{l+1}', hs, level=l, extra=sorted(hdf - fd)[:4], missing=sorted(fd - hdf)[:4]); return False
    return True

def _tiling(rec, hs, sh):
    rec.count('oracle:tiling')
    L = hs.numlevels
    fin = sh.ncells(L - 1)
    cover = np.zeros(fin, dtype=int)
    for l in range(L):
        f = 2 ** (L - 1 - l)
        for c in hs.active_cells(l):
            sl = tuple(slice(ci * f, (ci + 1) * f) for ci in c)
            cover[sl] += 1
    if not np.all(cover == 1):
        _bad(rec, 'active cells tile the domain exactly once', hs, min=int(cover.min()), max=int(cover.max())); return False
    # flat canonical order of cells and functions
    fl = hs.active_functions(flat=True)
    ref = [(l, f) for l in range(L) for f in sorted(hs.actfun[l])]
    if [(l, tuple(f)) for l, f in fl] != [(l, tuple(f)) for l, f in ref] or hs.numdofs != len(ref) or tuple(hs.numactive) != tuple(len(a) for a in hs.actfun):
        _bad(rec, 'active functions reported in canonical order', hs); return False
    cl = hs.active_cells(flat=True)
    if [(l, tuple(c)) for l, c in cl] != [(l, c) for l in range(L) for c in sorted(map(tuple, hs.active_cells(l)))] or hs.total_active_cells != len(cl):
        _bad(rec, 'active cells reported in canonical order', hs); return False
    return True

def _disparity(rec, hs, sh):
    if not np.isfinite(hs.disparity): return True
    if getattr(hs, '_verif_nondefault_marking', False): return True
    rec.count('oracle:disparity')
    d = int(hs.disparity); L = hs.numlevels
    for k in range(L):
        for f in hs.actfun[k]:
            for l in range(k + d + 1, L):
                for c in hs.active_cells(l):
                    if sh.func_meets_cell(k, tuple(f), l, tuple(c)):
                        _bad(rec, 'no active function of level k is nonzero on an active cell of level > k+d', hs, function=[k, list(f)], cell=[l, list(c)], d=d); return False
    return True

def _heavy(rec, hs, sh):
    import scipy.sparse
    L = hs.numlevels
    nfine = int(np.prod(sh.ndofs(L - 1)))
    if nfine > 400: return
    n = hs.numdofs
    Rh = hs.represent_fine(truncate=False).toarray()
    rec.count('oracle:independence')
    if Rh.shape != (nfine, n) or np.linalg.matrix_rank(Rh, tol=1e-10) != n:
        _bad(rec, 'active functions are linearly independent', hs, rank=int(np.linalg.matrix_rank(Rh, tol=1e-10)), numdofs=int(n)); return
    Rt = hs.represent_fine(truncate=True).toarray()
    rec.count('oracle:thb_pu')
    if Rt.min() < -1e-13:
        _bad(rec, 'truncated basis non-negative', hs, min=float(Rt.min())); return
    rs = Rt.sum(axis=1)
    if np.abs(rs - 1).max() > 1e-12:
        _bad(rec, 'truncated basis sums to one', hs, min=float(rs.min()), max=float(rs.max())); return
    rec.count('oracle:transforms')
    T = hs.thb_to_hb().toarray(); Ti = hs.hb_to_thb().toarray()
    if np.abs(T @ Ti - np.eye(n)).max() > 1e-11 or np.abs(Ti @ T - np.eye(n)).max() > 1e-11:
        _bad(rec, 'HB<->THB transforms are mutually inverse', hs); return
    if np.abs(Rh @ T - Rt).max() > 1e-11:
        _bad(rec, 'HB<->THB transforms map between bases of the same space (R_hb T = R_thb)', hs, err=float(np.abs(Rh @ T - Rt).max())); return
    # the HB representation itself: column of an active function of level k = its coefficients on the finest level;
    # check against knot-insertion by evaluating both sides at points (cheap: compare with per-level prolongations from the space)
    rec.count('oracle:incidence')
    Z = hs.incidence_matrix().toarray()
    funcs = [(l, tuple(f)) for l in range(L) for f in sorted(hs.actfun[l])]
    cells = [(l, tuple(c)) for l in range(L) for c in sorted(map(tuple, hs.active_cells(l)))]
    if Z.shape != (len(funcs), len(cells)):
        _bad(rec, 'incidence matrix shape', hs, shape=list(Z.shape)); return
    for i, (lf, f) in enumerate(funcs):
        for j, (lc, c) in enumerate(cells):
            want = 1 if sh.func_meets_cell(lf, f, lc, c) else 0
            if (1 if Z[i, j] != 0 else 0) != want:
                _bad(rec, 'incidence matrix equals the geometric overlap relation', hs, function=[lf, list(f)], cell=[lc, list(c)], got=float(Z[i, j])); return
    rec.count('oracle:queries')
    for (l, c) in cells[:6] + cells[-3:]:
        ext = hs.cell_extents(l, c); box = sh.cell_box(l, c)
        if any(abs(e[0] - b[0]) > 1e-14 or abs(e[1] - b[1]) > 1e-14 for e, b in zip(ext, box)):
            _bad(rec, 'cell_extents agrees with the dyadic geometry', hs, cell=[l, list(c)]); return
    for (l, f) in funcs[:6] + funcs[-3:]:
        sup = hs.function_support(l, f); box = sh.func_box(l, f)
        if any(abs(e[0] - b[0]) > 1e-14 or abs(e[1] - b[1]) > 1e-14 for e, b in zip(sup, box)):
            _bad(rec, 'function_support agrees with the dyadic geometry', hs, function=[l, list(f)]); return

def _support_queries(rec, hs, sh):
    """compute_supports of function sets spread over several levels = the active cells met by any of them."""
    L = hs.numlevels
    rng = np.random.default_rng(sum(len(a) for a in hs.actfun) * 31 + L)
    cells = [(l, tuple(c)) for l in range(L) for c in sorted(map(tuple, hs.active_cells(l)))]
    if len(cells) > 600: return True          # keep the per-call cost bounded on large 3D spaces
    for trial in range(2):
        sel = []
        for l in range(L):
            pool = sorted(hs.actfun[l]) + (sorted(hs.deactfun[l]) if trial == 1 else [])
            k = int(rng.integers(0, 3)) if pool else 0
            sel.append([pool[int(i)] for i in rng.choice(len(pool), size=min(k, len(pool)), replace=False)] if k else [])
        if sum(1 for x in sel if x) < 2 and L >= 2:
            # make sure at least two levels contribute
            for l in range(L):
                pool = sorted(hs.actfun[l])
                if pool and not sel[l]: sel[l] = [pool[0]]
        rec.count('oracle:multi_level_supports')
        try:
            got = hs.compute_supports([list(x) for x in sel])
        except Exception as ex:
            _bad(rec, 'compute_supports raises', hs, exc=type(ex).__name__, msg=str(ex)[:200]); return False
        want = {}
        for (lc, c) in cells:
            if any(sh.func_meets_cell(lf, tuple(f), lc, c) for lf in range(L) for f in sel[lf]):
                want.setdefault(lc, set()).add(c)
        gotn = {int(l): set(map(tuple, cs)) for l, cs in got.items() if len(cs)}
        if gotn != want:
            lv = sorted(set(gotn) | set(want))
            _bad(rec, 'compute_supports of functions on several levels is the union of their active-cell supports', hs,
                 functions=[[list(f) for f in x] for x in sel], missing={str(l): sorted(map(list, want.get(l, set()) - gotn.get(l, set())))[:4] for l in lv},
                 extra={str(l): sorted(map(list, gotn.get(l, set()) - want.get(l, set())))[:4] for l in lv}); return False
    return True

def check_state(rec, hs, heavy=True):
    sh = getattr(hs, '_verif_shadow', None)
    if sh is None: return
    if not _cmp_sets(rec, hs, sh): return
    if not _tiling(rec, hs, sh): return
    if not _disparity(rec, hs, sh): return
    if not _support_queries(rec, hs, sh): return
    if heavy: _heavy(rec, hs, sh)

def setup(rec, tier):
    import icontract
    from pyiga import hierarchical
    from refmodels.hier import Shadow
    H = hierarchical.HSpace
    if getattr(H.refine, '_verif', False): return
    def init_post(self, kvs):
        rec.count('contract:init')
        try:
            self._verif_shadow = Shadow([kv.p for kv in kvs], [kv.numspans for kv in kvs])
            self._verif_hist = []
            # only uniform open knot vectors with simple interior knots are modelled
            for kv in kvs:
                if len(kv.kv) != kv.numspans + 2 * kv.p + 1 or not np.allclose(np.diff(np.unique(kv.kv)), 1.0 / kv.numspans): self._verif_shadow = None
        except Exception:
            self._verif_shadow = None
        return True
    def refine_post(self, marked, result, truncate=False):
        rec.count('contract:refine')
        sh = getattr(self, '_verif_shadow', None)
        if sh is None: return True
        if truncate: self._verif_nondefault_marking = True
        try:
            sh.refine({int(l): [tuple(c) for c in cs] for l, cs in result.items()})
        except ValueError as e:
            _bad(rec, 'refine() returns cells of the refinement region', self, msg=str(e)); self._verif_shadow = None; return True
        self._verif_hist = list(self._verif_hist) + [{int(l): sorted([list(map(int, c)) for c in cs]) for l, cs in marked.items()}]
        # the marked cells must be among the refined ones
        for l, cs in marked.items():
            if not set(map(tuple, cs)) <= set(map(tuple, result.get(l, ()))):
                _bad(rec, 'returned cells are a superset of the marked cells', self, level=int(l))
        check_state(rec, self, heavy=_state['heavy'])
        return True
    f = icontract.ensure(init_post, error=PostBroken)(H.__init__)
    H.__init__ = f
    g = icontract.ensure(refine_post, error=PostBroken)(H.refine)
    g._verif = True
    H.refine = g
    orig_ifk = H.init_from_kvs
    def init_from_kvs(*a, **kw):
        out = orig_ifk(*a, **kw)
        out._verif_shadow = None        # state set from outside: the shadow does not apply
        return out
    H.init_from_kvs = staticmethod(init_from_kvs)

def cases(tier, seed):
    # exhaustive families, parallelised over the first refinement call
    fams = [(1, 3, 2), (1, 2, 3)] if tier == 'quick' else [(1, 2, 3), (1, 3, 3), (1, 4, 3), (2, 2, 2)]
    for (dim, n0, depth) in fams:
        ps = ((1, 2, 3) if (dim, n0, depth) == (1, 3, 2) else (1, 2)) if tier == 'quick' else (1, 2, 3, 4)
        for p in ps:
            for disp in (None, 1, 2):
                for trunc in ((False,) if tier == 'quick' else (False, True)):
                    ncell = n0 ** dim
                    cap = ncell if dim == 1 else 2
                    firsts = [s for r in range(1, cap + 1) for s in itertools.combinations(range(ncell), r)]
                    for fi in range(len(firsts)):
                        yield {'kind': 'exhaustive', 'dim': dim, 'n0': n0, 'p': p, 'disparity': disp, 'truncate': trunc, 'depth': depth, 'first': fi,
                               'cap': 2 if tier == 'quick' else 3}
    n = {'quick': 360, 'thorough': 8000}[tier]
    for i in range(n):
        yield {'kind': 'random', 'seed': seed, 'idx': i}
    for i in range({'quick': 24, 'thorough': 400}[tier]):
        yield {'kind': 'region', 'seed': seed, 'idx': i}
    # deep histories: the same spot refined again and again (6-10 calls, up to 9 levels), where the closure of a finite
    # disparity needs several hops (l -> l-d -> l-2d)
    for i in range({'quick': 120, 'thorough': 2000}[tier]):
        yield {'kind': 'deep', 'seed': seed, 'idx': i}
    if tier == 'thorough':
        yield {'kind': 'suite'}      # the repository's own tests as a further workload, run under this check's monitors

def run_case(rec, case):
    _state['case'] = case
    if case['kind'] == 'suite':
        from verif.suite import run_suite
        rec.case(case, nontrivial=True); run_suite(rec, 'c04', case); return
    {'exhaustive': _exhaustive, 'random': _random, 'region': _region, 'deep': _deep}[case['kind']](rec, case)

def _exhaustive(rec, case):
    from pyiga import bspline, hierarchical
    dim, n0, p = case['dim'], case['n0'], case['p']
    disp = np.inf if case['disparity'] is None else case['disparity']
    kvs = dim * (bspline.make_knots(p, 0.0, 1.0, n0),)
    _state['heavy'] = True
    cap = case['cap']
    def subsets(hs):
        act = [(l, tuple(c)) for l in range(hs.numlevels) for c in sorted(map(tuple, hs.active_cells(l))) if l < 3]
        for r in range(1, min(cap, len(act)) + 1):
            for s in itertools.combinations(act, r):
                yield s
    def rec_dfs(hs, depth):
        rec.case({'final_state': [sorted(map(list, a)) for a in hs.actfun]}, nontrivial=hs.numlevels >= 2,
                 key=[[sorted(map(list, a)) for a in hs.actfun], [sorted(map(list, hs.active_cells(l))) for l in range(hs.numlevels)], p, case['disparity'], case['truncate']])
        if depth == 0: return
        for s in subsets(hs):
            h2 = hs.copy()
            marks = {}
            for l, c in s: marks.setdefault(l, []).append(c)
            try:
                h2.refine(marks)
            except PostBroken:
                raise
            except Exception as e:
                _bad(rec, 'refine raises for admissible marks', hs, exc=type(e).__name__, msg=str(e)[:200], marks={str(k): v for k, v in marks.items()}); continue
            rec_dfs(h2, depth - 1)
    hs0 = hierarchical.HSpace(kvs, truncate=case['truncate'], disparity=disp)
    ncell = n0 ** dim
    cells0 = sorted(map(tuple, hs0.active_cells(0)))
    capf = ncell if dim == 1 else 2
    firsts = [s for r in range(1, capf + 1) for s in itertools.combinations(range(ncell), r)]
    s = firsts[case['first']]
    h1 = hs0.copy()
    h1.refine({0: [cells0[i] for i in s]})
    rec_dfs(h1, case['depth'] - 1)

def _random(rec, case):
    from verif import hgen
    from verif.gen import rng_for
    from verif.api import guarded
    rng = rng_for('C04r', case['seed'], case['idx'])
    dims = (1, 2, 2, 3) if case['idx'] % 5 else (3,)
    desc = hgen.random_desc(rng, dims=dims, pmax=4 if 3 not in dims else 2, n0max=4 if 3 not in dims else 2, max_steps=6 if 3 not in dims else 3, max_levels=5 if 3 not in dims else 3,
                            bd_choices=('none',))
    desc['disparity'] = [None, 1, 2, 3][int(rng.integers(0, 4))]
    _state['case'] = dict(case, space=desc)
    _state['heavy'] = False
    ok, r = guarded(rec, _state['case'], {'route': 'refine', 'container': desc['container']}, hgen.build, desc)
    if not ok: return
    hs, hist = r
    _state['case'] = dict(case, space=dict(desc, history=hist))
    rec.case(_state['case'], nontrivial=hs.numlevels >= 2, key=[[sorted(map(list, a)) for a in hs.actfun], desc['p'], desc['disparity'], desc['truncate']])
    _state['heavy'] = True
    guarded(rec, _state['case'], {'route': 'final_state_checks'}, check_state, rec, hs, True)
    # copies and virtual spaces carry consistent state
    h2 = hs.copy()
    if [set(map(tuple, a)) for a in h2.actfun] != [set(map(tuple, a)) for a in hs.actfun]:
        _bad(rec, 'copy() reproduces the space', hs)

def _deep(rec, case):
    from pyiga import bspline, hierarchical
    from verif.gen import rng_for
    from verif.api import guarded
    rng = rng_for('C04d', case['seed'], case['idx'])
    dim = 1 if rng.random() < 0.7 else 2
    p = int(rng.integers(1, 3)); n0 = int(rng.integers(2, 6)) if dim == 1 else 2
    disp = [2, 2, 3, 1, np.inf][int(rng.integers(0, 5))]
    kvs = dim * (bspline.make_knots(p, 0.0, 1.0, n0),)
    hs = hierarchical.HSpace(kvs, truncate=bool(rng.integers(0, 2)), disparity=disp)
    steps = int(rng.integers(6, 11)) if dim == 1 else int(rng.integers(4, 7))
    pt = rng.uniform(0.05, 0.95, dim)
    hist = []
    _state['case'] = dict(case, dim=dim, p=p, n0=n0, disparity=None if not np.isfinite(disp) else int(disp), steps=steps, point=pt.tolist())
    _state['heavy'] = False
    for s_ in range(steps):
        L = hs.numlevels
        if L >= 9: break
        # the active cell containing the point (mostly), sometimes a random active cell of the finest level
        target = None
        for l in reversed(range(L)):
            nc = n0 * 2 ** l
            c = tuple(min(int(x * nc), nc - 1) for x in pt)
            if c in set(map(tuple, hs.active_cells(l))): target = (l, c); break
        if target is None or rng.random() < 0.15:
            l = L - 1; act = sorted(map(tuple, hs.active_cells(l)))
            target = (l, act[int(rng.integers(0, len(act)))])
        marks = {target[0]: [target[1]]}
        hist.append({str(target[0]): [list(target[1])]})
        ok, r = guarded(rec, dict(_state['case'], history=hist), {'route': 'refine', 'family': 'deep'}, hs.refine, marks)
        if not ok: return
    _state['case'] = dict(_state['case'], history=hist)
    rec.case(_state['case'], nontrivial=hs.numlevels >= 4, key=[[sorted(map(list, a)) for a in hs.actfun], p, _state['case']['disparity']])
    guarded(rec, _state['case'], {'route': 'final_state_checks'}, check_state, rec, hs, hs.numlevels <= 5)

def _region(rec, case):
    from pyiga import bspline, hierarchical
    from verif.gen import rng_for
    from verif.api import guarded
    rng = rng_for('C04g', case['seed'], case['idx'])
    dim = int(rng.choice([1, 2, 2, 3])); p = int(rng.integers(1, 4)); n0 = int(rng.integers(2, 5)) if dim < 3 else 2
    disp = [np.inf, 1, 2][int(rng.integers(0, 3))]
    kvs = dim * (bspline.make_knots(p, 0.0, 1.0, n0),)
    hs = hierarchical.HSpace(kvs, truncate=bool(rng.integers(0, 2)), disparity=disp)
    _state['case'] = dict(case, dim=dim, p=p, n0=n0, disparity=None if not np.isfinite(disp) else int(disp))
    _state['heavy'] = True
    ctr = rng.uniform(0.2, 0.8, dim); rad = float(rng.uniform(0.15, 0.5))
    pred = lambda *x: sum((xi - ci) ** 2 for xi, ci in zip(x, ctr)) < rad ** 2
    for lv in range(int(rng.integers(1, 4))):
        # reference: cells of level lv whose centre (in xyz order) satisfies the predicate
        act = sorted(map(tuple, hs.active_cells(lv))) if lv < hs.numlevels else []
        nc = [n0 * 2 ** lv] * dim
        want = [c for c in act if pred(*reversed([(ci + 0.5) / n for ci, n in zip(c, nc)]))]
        if not want: break
        before = len(hs._verif_hist)
        ok, r = guarded(rec, _state['case'], {'route': 'refine_region'}, hs.refine_region, lv, pred)
        if not ok: return
        marked = hs._verif_hist[before] if len(hs._verif_hist) > before else {}
        if sorted(map(tuple, marked.get(lv, []))) != want:
            _bad(rec, 'refine_region marks exactly the active cells whose centre satisfies the predicate', hs, level=lv, got=marked.get(lv), want=want[:6])
    rec.case(_state['case'], nontrivial=hs.numlevels >= 2, key=[[sorted(map(list, a)) for a in hs.actfun], p, dim])
