#!/usr/bin/env python3
"""Generate MANIFEST.json from the table below (one entry per property that has a check module)."""
import json, os, subprocess, sys

ROOT = os.path.normpath(os.path.join(os.path.dirname(os.path.abspath(__file__)), '..'))

# property -> (technique, level text, level note, design ref)
TABLE = {
 'C01': ('reference-model monitor: independent Gauss-Legendre reference assembler + semantic interpreter of generated forms, run against compiled assemblers',
         'Runtime monitoring: random well-formed variational forms over the documented grammar are compiled for real and every assembled entry is compared with an independent reference assembler (own B-spline/geometry evaluation, own interpreter of the form AST); accepted forms must build, load and assemble. Held on the generated programs only.',
         'Trusted: numpy linear algebra, the harness reference evaluators (refmodels, forms.refasm), gcc/Cython toolchain. Covers Linux/gcc only. update() of updatable fields is exercised too; one open finding (quantities derived from an updated field are not recomputed) is listed by mechanism. Thorough adds an ASan/UBSan build with instrumented JIT modules.', '2/C01, 6'),
 'C02': ('reference-model monitor: exact rational Cox-de Boor oracle on every evaluation route (+ASan/UBSan build in thorough)',
         'Runtime monitoring: every evaluation route is compared pointwise with an exact rational Cox-de Boor recursion on generated knot vectors and points (knots, ends, adjacent floats), with exact structural checks (non-negativity, locality, sums).',
         'Trusted: Python fractions; tolerance is a forward error bound of the recursion. Thorough adds an ASan/UBSan build of bspline_cy.', '2/C02'),
 'C03': ('reference-model monitor: level-wise Galerkin restriction computed from exact knot-insertion matrices and tensor-product assembly',
         'Runtime monitoring: hierarchical matrices/vectors assembled over spaces from generated refinement histories are compared entrywise with the definition (finer-level quadrature) built from independent representation matrices; THB congruence and symmetric/general agreement checked.',
         'Trusted: tensor-product assembly on each level (property C01), exact knot insertion reference. Histories include empty intermediate levels, live mark sets, read-only queries between refinements and the truncate marking; one open finding (truncate marking with finite disparity) is listed by mechanism.', '2/C03, 6'),
 'C04': ('invariant hooks (icontract postconditions on HSpace.refine/__init__) + support-based shadow model',
         'Runtime monitoring: postconditions attached from the harness to the real HSpace mutators rebuild the expected state from a shadow model after every refinement call (exhaustive short histories on small meshes, random long ones) and check tiling, activity rule, independence, THB partition of unity, transforms, disparity and incidence.',
         'Trusted: the shadow model (region sets by definition), numpy rank computations. Contract-evaluation counters must be positive.', '2/C04'),
 'C05': ('reference-model monitor: pointwise evaluation of both sides through an independent B-spline evaluator',
         'Runtime monitoring: every transfer matrix returned for a nested pair is applied to random coefficients and both functions are evaluated by an independent evaluator on >= p+2 points per finest span (decisive for splines up to rounding).',
         'Trusted: refmodels evaluator. Two open findings (THB virtual-hierarchy prolongators from 3 levels, prolongate_to with finite disparity) are listed in known_findings.json by mechanism.', '2/C05'),
 'C06': ('trace monitor: every rewrite pair (e -> r) of the form middle-end recorded by wrapping vform.transform_exprs and evaluated by a tree interpreter under random environments; straight-line evaluator with read-before-write detection',
         'Runtime monitoring of the form compiler middle-end: each individual rewrite is checked for value preservation at the moment it happens, CSE classes are checked for equal values, and the finalized program is executed in emitted order by an evaluator that raises on use-before-definition.',
         'Trusted: the harness tree interpreter and jet arithmetic. No compilation involved.', '2/C06'),
 'C07': ('reference-model monitor: independent tensor-product/NURBS evaluator with written-out quotient rule; immutability fingerprints',
         'Runtime monitoring: all evaluation routes of B-spline/NURBS/user/composed/boundary functions and all geometry operations are compared with an independent evaluator and the operations\' definitions on generated functions and points; operands are fingerprinted before/after every operation.',
         'Trusted: refmodels evaluator, numpy.', '2/C07'),
 'C08': ('differential monitor across configurations + bitwise schedule oracle across thread counts (+TSan/ASan builds in thorough)',
         'Runtime monitoring: one canonical dense result per (form, space, inputs); every format/layout/symmetry/subset/update/reuse configuration is mapped to it and compared; raw results must be bitwise equal for thread counts 1..16 and chunkings. ThreadSanitizer on the thread-pool path in thorough.',
         'Trusted: canonical configuration (tied to the C01 reference assembler in every case). OpenMP main-vs-worker races are out of reach of TSan (libgomp uninstrumented); covered only by the bitwise oracle. One open finding (update_params leaves derived constants stale) is listed by mechanism.', '2/C08, 6'),
 'C09': ('reference-model monitor: exact rational integrals of piecewise polynomials; spectral/sum identities',
         'Runtime monitoring: 1D bilinear-form matrices are compared with exact rational integrals, Kronecker/generic/string/predefined paths are compared with each other, and SPD/kernel/total-measure identities are checked on generated spaces; the low-rank assembler is held to a multiple of its tolerance.',
         'Trusted: Python fractions, numpy eigvalsh. One open finding (random premature stop of the cross approximation in the low-rank assembler) is matched only when the deviation does not recur on repetition.', '2/C09, 6'),
 'C10': ('invariant hook (icontract postcondition on RestrictedLinearSystem.__init__) + algebraic oracles + reference trace evaluation',
         'Runtime monitoring: a postcondition on the real constructor checks partition, restricted system and value placement for every constructed system (exhaustive orders of small index sets, random otherwise); boundary/initial conditions are checked by evaluating the trace with an independent evaluator.',
         'Trusted: geometry evaluation (C07), numpy solves; residual tolerance scaled by the condition number.', '2/C10'),
 'C11': ('reference-model monitor: textbook Gauss-Seidel; fixed-point/energy oracles; recording step wrapper on the drivers',
         'Runtime monitoring: every sweep variant is compared with a pure-Python textbook update; multigrid cycles are checked for the fixed point and energy non-increase; drivers are observed through a recording step wrapper (returned count = calls, residual recomputed).',
         'Trusted: dense numpy reference; independent of the open C05 prolongator finding (Galerkin coarse operators for any P).', '2/C11'),
 'C12': ('reference-model monitor: dense stage-system oracle; rooted-tree order conditions on the shipped tableaux; offline trace checker on recorded step attempts',
         'Runtime monitoring: single steps are compared with a dense solve of the whole stage system; tableaux captured from the real methods are checked against the algebraic order conditions; adaptive drivers are observed by recording every step attempt and checked against the controller specification.',
         'Trusted: dense numpy solves. One open finding (dirk34 tableau) listed by mechanism.', '2/C12'),
 'C13': ('trace monitor on the compile cache (request/response recorded by replacing compile_cython_module) + key-soundness on mutation-neighbour pairs + freshness by normal-form comparison',
         'Runtime monitoring: for mutation-neighbour pairs of forms equal hash with different generated code is the refutation; request sequences run through the real compile_vform with a recording stub compiler and each response source must equal the generated source of the request; shipped assemblers are regenerated under several hash seeds and compared.',
         'Trusted: the normal form of generated sources (lib/forms/canon.py) and, where normal forms differ, the tree interpreter of C06 executing both finalized programs under random environments (the generator factors one form differently from run to run).', '2/C13, 6'),
 'C14': ('invariant hook (union-find shadow fed by recorded join_dofs calls, checked after every join) + exhaustive join orders + conforming-split differential',
         'Runtime monitoring: a union-find shadow observes every join; after each join and after finalize the class structure, numbering and patch-to-global matrices are compared with it, exhaustively over join orders of small patch complexes; glued systems are compared with undivided ones.',
         'Trusted: union-find shadow; undivided assembly (C01).', '2/C14'),
 'C15': ('reference-model monitor: dense Kronecker products and definition of the compact layout (+ASan build in thorough)',
         'Runtime monitoring: structures from generated per-level patterns (exhaustive for small blocks) are compared with dense numpy Kronecker products, including the order of the compact layout, subsets, matvec, reordering, transposition, knot-vector patterns, partial products and index maps.',
         'Trusted: numpy.kron. Thorough adds an ASan/UBSan build of mlmatrix_cy.', '2/C15'),
 'C16': ('reference-model monitor: explicit dense matrices for every operator instance and application route',
         'Runtime monitoring: random operator instances of every class (nested, rectangular, mixed storage kinds/dtypes) are applied to vectors, columns and matrices, transposed and adjointed, and compared with the explicit dense matrix; solver factories are checked by residual.',
         'Trusted: numpy dense linear algebra.', '2/C16'),
 'C17': ('reference-model monitor: reproduction/orthogonality oracles with independent evaluation and higher-order quadrature',
         'Runtime monitoring: functions of the space are pushed through interpolation/L2 projection and must be reproduced (condition-scaled), interpolants must match data at the nodes, projection residuals must be orthogonal; stderr warnings of the CG path are captured.',
         'Trusted: refmodels evaluator; mass/collocation condition numbers computed densely.', '2/C17'),
 'C18': ('history + executable model: dense numpy shadow carried through random operation sequences',
         'Runtime monitoring: every tensor object carries a dense shadow; random operation sequences are applied to both and compared after each step; approximation guarantees are checked against the requested tolerances.',
         'Trusted: numpy dense arithmetic; seeded numpy.random for the randomized algorithms. One open finding (random premature stop of aca_3d) is matched only when the deviation does not recur with other random draws.', '2/C18, 6'),
 'C19': ('invariant hooks: icontract postconditions on make_knots and KnotVector.findspan; queries vs definitions',
         'Runtime monitoring: postconditions attached to the real make_knots/findspan are evaluated over an exhaustive (p,n,mult) family and random intervals; mesh/support/Greville/refine/equality/derivative queries are compared with definitions computed from the raw knots (exact rationals where needed).',
         'Trusted: Python fractions. Contract-evaluation counters must be positive.', '2/C19'),
 'C20': ('fault enumeration: fresh subprocesses per trial, crash points by guarded hook and SIGKILL, file faults on the files the build writes (from strace), concurrent compilers behind a barrier, inotify/digest checker for overwrites',
         'Fault enumeration at runtime: every trial is a fresh process with a private cache directory; compilation is interrupted at named stages and random times, every file the build writes is truncated/deleted/garbled singly and in sequences, 2..16 processes race on the same and distinct forms; exit status, signal and assembled matrix are the observables.',
         'Trusted: strace-derived list of written files; the reference matrix (C01 reference assembler). Unbounded crash points (kill times) are sampled, the 5 hook stages and the file-fault classes are enumerated. One open finding (published module truncated into a loadable segment: SIGBUS) is listed by mechanism.', '2/C20, 6'),
}

NOT_BUILT_REASON = 'check not built yet in this session (runtime-monitoring design exists in DESIGN.md section 2); not claimed until its monitor runs silently on the unchanged tree'

def main():
    built = sorted(f[:-3].upper() for f in os.listdir(os.path.join(ROOT, 'checks')) if f.startswith('c') and f.endswith('.py') and f[1:-3].isdigit())
    disabled = set(l.strip() for l in open(os.path.join(ROOT, 'tools', 'disabled.txt'))) if os.path.exists(os.path.join(ROOT, 'tools', 'disabled.txt')) else set()
    repo_head = subprocess.run(['git', '-C', '/repo', 'log', '--format=%h %s'], capture_output=True, text=True).stdout.split('\n')
    hook_commits = [l.split()[0] for l in repo_head if l and 'verif hook' in l]
    checks = []
    for pid in built:
        if pid in disabled: continue
        tech, text, note, ref = TABLE[pid]
        checks.append({
            'property_id': pid,
            'quick_cmd': './check %s --tier quick' % pid,
            'thorough_cmd': './check %s --tier thorough' % pid,
            'evidence_file': 'evidence/%s.json' % pid,
            'replay_cmd_template': './check %s --replay {path}' % pid,
            'engine': 'pyiga-verif',
            'level_claimed': {'category': 'fault_enumeration' if pid == 'C20' else 'exploration', 'text': text, 'design_ref': 'DESIGN.md ' + ref},
            'level_note': note,
            'technique': tech,
        })
    na = [{'property_id': pid, 'reason': NOT_BUILT_REASON} for pid in sorted(TABLE) if pid not in built or pid in disabled]
    man = {
        'version': 1,
        'setup_cmd': './setup.sh',
        'hooks': {
            'guard': 'PYIGA_VERIF',
            'enable': 'checks stage /repo\'s working tree into a scratch copy, build it there and run workers with PYIGA_VERIF=1 in the environment; the only guarded hook is _verif_stage() in pyiga/compile.py (PYIGA_VERIF_COMPILE_FAULT=<stage> kills the compiling process at that stage, PYIGA_VERIF_COMPILE_TRACE=<file> logs the stages)',
            'baseline_off_cmd': 'cd /repo && env -u PYIGA_VERIF -u PYIGA_VERIF_COMPILE_FAULT -u PYIGA_VERIF_COMPILE_TRACE /venv/bin/python -m pytest -ra -q -p no:cacheprovider --timeout=900 --continue-on-collection-errors',
            'source_commits': hook_commits,
            'add_only': True,
        },
        'engines': [
            {'name': 'pyiga-verif', 'path': 'lib/verif', 'serves_properties': built,
             'kind_free_text': 'runtime-monitoring driver: stages and builds /repo\'s working tree (plain/asan/tsan variants), runs monitors in worker subprocesses, classifies observations against known_findings.json, writes evidence'},
            {'name': 'refmodels', 'path': 'lib/refmodels', 'serves_properties': built,
             'kind_free_text': 'independent executable reference models (exact B-splines, tensor-product evaluation, hierarchical shadow model, form interpreter, union-find, textbook solvers)'},
        ],
        'checks': checks,
        'notes': 'Verdicts: exit 0 held on what was observed (KNOWN-FINDING lines for listed open findings), exit 1 VIOLATION, exit 2 INCONCLUSIVE (build failed, watchdog, monitor counters zero). All evidence is written by ./check itself.',
        'not_applicable': na,
    }
    with open(os.path.join(ROOT, 'MANIFEST.json'), 'w') as f:
        json.dump(man, f, indent=1)
    print('MANIFEST.json: %d checks, %d not claimed' % (len(checks), len(na)))

if __name__ == '__main__':
    main()
