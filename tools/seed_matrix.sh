#!/bin/bash
# usage: seed_matrix.sh [tier] [seed ids...]   -- runs each seed's own property check against it; appends to seeded/RESULTS-<tier>.txt
T=${1:-quick}; shift
OUT=/verif/seeded/RESULTS-$T.txt
SEEDS="$@"; [ -z "$SEEDS" ] && SEEDS=$(ls /verif/seeded | grep -E '^C[0-9]+_[0-9]+$')
for S in $SEEDS; do
  P=${S%%_*}
  R=$(/verif/tools/try_seed.sh $S $P $T 2>&1 | head -1 | cut -c1-260)
  echo "$(date +%H:%M:%S) $R" >> $OUT
done
