#!/bin/bash
# usage: sweep.sh <tier> <seed...>  -- runs every check for the given seeds on /repo, output lines to /var/tmp/sweep-<tier>.txt
T=$1; shift
OUT=/var/tmp/sweep-$T.txt
for S in "$@"; do
  for i in $(seq -w 1 20); do
    R=$(VERIF_OUT_DIR=/var/tmp/sweep-out /verif/check C$i --tier $T --seed $S 2>&1 | grep -E "^(HELD|VIOLATION|INCONCLUSIVE|  signature)" | head -4 | cut -c1-400 | tr '\n' '|')
    echo "seed=$S C$i :: $R" >> $OUT
  done
done
echo DONE >> $OUT
