#!/bin/bash
# usage: try_seed.sh <seed-id e.g. C06_1> <check id> [tier] [extra args]
# Runs one check against a seeded change: scratch worktree of /repo outside /repo and /verif, patch applied there,
# check pointed at it with VERIF_REPO, evidence/replays redirected to a scratch directory; everything removed afterwards.
# Prints "CAUGHT", "MISSED" (exit 0 from the check) or "INCONCLUSIVE".
S=$1; C=$2; T=${3:-quick}; shift 3
WT=/var/tmp/wt/try_${S}_${C}_$$
OUT=/var/tmp/wt/out_${S}_${C}_$$
mkdir -p /var/tmp/wt $OUT
git -C /repo worktree add --detach -q $WT HEAD || exit 3
( cd $WT && { git apply /verif/seeded/$S/patch.diff 2>/dev/null || { git apply --3way /verif/seeded/$S/patch.diff >/dev/null 2>&1 && git reset -q; }; } ) || { echo "patch failed seed=$S"; git -C /repo worktree remove --force $WT; exit 3; }
VERIF_REPO=$WT VERIF_OUT_DIR=$OUT /verif/check $C --tier $T "$@" > $OUT/log 2>&1; RC=$?
case $RC in 0) V=MISSED;; 1) V=CAUGHT;; *) V=INCONCLUSIVE;; esac
echo "$V seed=$S check=$C tier=$T rc=$RC :: $(grep -E '^(VIOLATION|HELD|INCONCLUSIVE|KNOWN)' $OUT/log | head -3 | cut -c1-300 | tr '\n' ' ')"
grep -E "^  signature" $OUT/log | head -4 | cut -c1-400
git -C /repo worktree remove --force $WT; rm -rf $OUT
exit 0
