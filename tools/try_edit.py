#!/usr/bin/env python3
"""usage: try_edit.py <check id> <file relative to repo> <old string> <new string> [tier]
Self-test of a check against a deliberate one-place break: scratch worktree of /repo (outside /repo and /verif), exact string
replacement (must occur exactly once unless prefixed with 'all:'), check run with VERIF_REPO/VERIF_OUT_DIR, worktree removed."""
import sys, os, subprocess, shutil, re
chk, rel, old, new = sys.argv[1:5]; tier = sys.argv[5] if len(sys.argv) > 5 else 'quick'
wt = '/var/tmp/wt/edit_%d' % os.getpid(); out = '/var/tmp/wt/editout_%d' % os.getpid()
os.makedirs('/var/tmp/wt', exist_ok=True); os.makedirs(out, exist_ok=True)
subprocess.run(['git', '-C', '/repo', 'worktree', 'add', '--detach', '-q', wt, 'HEAD'], check=True)
try:
    p = os.path.join(wt, rel); s = open(p).read()
    allm = old.startswith('all:')
    if allm: old = old[4:]
    n = s.count(old)
    if n == 0 or (n > 1 and not allm): print('EDIT-FAILED occurrences=%d' % n); sys.exit(3)
    open(p, 'w').write(s.replace(old, new))
    env = dict(os.environ, VERIF_REPO=wt, VERIF_OUT_DIR=out)
    r = subprocess.run(['/verif/check', chk, '--tier', tier], env=env, capture_output=True, text=True)
    verdict = {0: 'MISSED', 1: 'CAUGHT'}.get(r.returncode, 'INCONCLUSIVE')
    lines = [l for l in r.stdout.splitlines() if l.startswith(('  signature', 'HELD', 'INCONCLUSIVE'))]
    print(verdict, chk, rel, repr(old[:50]), '->', repr(new[:50]))
    for l in lines[:3]: print('   ', l[:300])
finally:
    subprocess.run(['git', '-C', '/repo', 'worktree', 'remove', '--force', wt]); shutil.rmtree(out, ignore_errors=True)
