#!/usr/bin/env python3
"""Copy the confirmed seeded changes (produced by sub-agents in scratch worktrees and re-validated by
tools/validate_seed.sh) into /verif/seeded/<PROP>_<n>/ with a meta.json."""
import os, re, json, shutil, subprocess, sys
SRC = sys.argv[1] if len(sys.argv) > 1 else '/tmp/seeded_out'; VAL = sys.argv[2] if len(sys.argv) > 2 else '/tmp/val'; DST = '/verif/seeded'
OFFSET = int(sys.argv[3]) if len(sys.argv) > 3 else 0
head = subprocess.run(['git', '-C', '/repo', 'rev-parse', '--short', 'HEAD'], capture_output=True, text=True).stdout.strip()
for P in sorted(os.listdir(SRC)):
    for n in sorted(os.listdir(os.path.join(SRC, P))):
        src = os.path.join(SRC, P, n); res = os.path.join(VAL, '%s_%s.result' % (P, n))
        if not os.path.exists(res): continue
        r = open(res).read().strip()
        if "191 passed" not in r or 'demo_with=1 demo_without=0' not in r:
            print('skip', P, n, r); continue
        dst = os.path.join(DST, '%s_%d' % (P, int(n) + OFFSET)); os.makedirs(dst, exist_ok=True)
        ad = os.path.join(VAL, '%s_%s.applied.diff' % (P, n))
        shutil.copy(ad if os.path.getsize(ad) > 0 else os.path.join(src, 'patch.diff'), os.path.join(dst, 'patch.diff'))
        shutil.copy(os.path.join(src, 'demo.py'), os.path.join(dst, 'demo.py'))
        notes = open(os.path.join(src, 'notes.md')).read()
        open(os.path.join(dst, 'notes.md'), 'w').write(notes)
        title = notes.strip().splitlines()[0].lstrip('# ').strip()
        m = re.search(r'\*\*What is needed[^*]*\*\*(.*?)(?=\n\s*\n\*\*|\Z)', notes, re.S) or re.search(r'(?i)needs?[^\n]*manifest[^\n]*\n(.*?)(?=\n\s*\n|\Z)', notes, re.S)
        needs = ' '.join(m.group(1).split()) if m else ''
        meta = {'property': P, 'title': title, 'needs_to_manifest': needs,
                'what_was_run': ('scratch worktree of /repo (git worktree add --detach); git apply patch.diff; %spytest test/ (%s); demo.py with the change exits 1, '
                                 'without it exits 0; worktree removed' % ('setup.py build_ext -i; ' if 'needbuild=1' in r else '', re.search(r"tests='([^']*)'", r).group(1))),
                'validated_against_commit': head, 'files_changed': sorted(set(re.findall(r'^\+\+\+ b/(\S+)', open(os.path.join(dst, 'patch.diff')).read(), re.M)))}
        json.dump(meta, open(os.path.join(dst, 'meta.json'), 'w'), indent=1)
        print('ok', P, n, '|', title[:80], '| needs:', needs[:60])
