#!/bin/bash
# usage: validate_seed.sh <PROP> <n> <slot>
# Confirms a seeded change in a scratch worktree: applies, (re)builds, passes the 191 tests,
# demo fails with the change and passes without. Writes /var/tmp/val4/<PROP>_<n>.result
P=$1; N=$2; SLOT=${3:-0}
SRC=/var/tmp/seeded_out4/$P/$N
WT=/var/tmp/wt/val$SLOT
OUT=/var/tmp/val4/${P}_${N}.result
LOG=/var/tmp/val4/${P}_${N}.log
exec > $LOG 2>&1
set -x
git -C /repo worktree remove --force $WT 2>/dev/null
rm -rf $WT
git -C /repo worktree add --detach $WT HEAD || { echo "RESULT worktree-failed" > $OUT; exit 1; }
cp /repo/pyiga/*.so $WT/pyiga/
cd $WT
export PYTHONPATH=$WT XDG_CACHE_HOME=$WT/.xdgcache
if ! git apply --check $SRC/patch.diff 2>/dev/null; then
  if ! git apply --3way $SRC/patch.diff; then echo "RESULT patch-does-not-apply" > $OUT; git -C /repo worktree remove --force $WT; exit 1; fi
else
  git apply $SRC/patch.diff
fi
git reset -q; git diff HEAD > /var/tmp/val4/${P}_${N}.applied.diff
NEEDBUILD=0
if git diff --name-only | grep -qE '\.(pyx|pxi|pxd|cc)$'; then NEEDBUILD=1; /venv/bin/python setup.py build_ext -i -j4 > /var/tmp/val4/${P}_${N}.build.log 2>&1 || { echo "RESULT build-failed" > $OUT; git -C /repo worktree remove --force $WT; exit 1; }; fi
timeout 3000 /venv/bin/python -m pytest -q -p no:cacheprovider --timeout=900 -x test/ > /var/tmp/val4/${P}_${N}.tests.log 2>&1
TESTS=$(tail -3 /var/tmp/val4/${P}_${N}.tests.log | grep -oE '[0-9]+ passed' | head -1)
FAILED=$(tail -3 /var/tmp/val4/${P}_${N}.tests.log | grep -oE '[0-9]+ failed' | head -1)
timeout 1500 /venv/bin/python $SRC/demo.py > /var/tmp/val4/${P}_${N}.demo_with.log 2>&1; DW=$?
git checkout HEAD -- .
if [ $NEEDBUILD = 1 ]; then cp /repo/pyiga/*.so $WT/pyiga/; fi
rm -rf $WT/.xdgcache
timeout 1500 /venv/bin/python $SRC/demo.py > /var/tmp/val4/${P}_${N}.demo_without.log 2>&1; DO=$?
echo "RESULT tests='$TESTS' failed='$FAILED' demo_with=$DW demo_without=$DO needbuild=$NEEDBUILD" > $OUT
cd /
git -C /repo worktree remove --force $WT
