#!/bin/bash
# Offline setup: check the toolchain, install icontract from the local wheelhouse into the
# git-ignored .deps (checks also self-install into ~/.cache/pyiga-verif/deps when it is absent).
set -e
here="$(cd "$(dirname "${BASH_SOURCE[0]}")" && pwd)"
for t in gcc rsync /venv/bin/python; do command -v $t >/dev/null || { echo "missing $t"; exit 1; }; done
if [ ! -d "$here/.deps/icontract" ]; then
  /venv/bin/python -m pip install -q --no-index --find-links /opt/veriftools/wheels --target "$here/.deps" icontract || echo "WARNING: icontract not installed by setup; checks will install it on demand"
fi
/venv/bin/python -m compileall -q "$here/lib" "$here/checks" >/dev/null || true
mkdir -p "$here/evidence" "$here/replays"
echo "setup ok"
