"""Build pyiga VForm objects and concrete assembler inputs from form descriptors.

A form descriptor (JSON-able):
  {'dim': d, 'geo_dim': g, 'boundary': bool, 'arity': 1|2, 'components': [cu, cv] (None = scalar), 'spaces': [su, sv],
   'params': {name: shape}, 'fields': {name: {'shape': [...], 'physical': bool, 'updatable': bool}}, 'exprs': [ast, ...]}
"""
import numpy as np

class Rejected(Exception):
    """The form compiler raised while the form was being constructed (explicit rejection)."""
    def __init__(self, exc):
        super().__init__(repr(exc)); self.exc = exc

def _sl(s):
    """index encoding: int | ':' | ['s', a, b]"""
    if s == ':': return slice(None)
    if isinstance(s, list) and s and s[0] == 's': return slice(s[1], s[2])
    return int(s)

def py_index(I):
    """AST index -> python index: int | ['s',a,b] (vector)  or  ['m', i, j] (matrix)."""
    if isinstance(I, list) and I and I[0] == 'm': return (_sl(I[1]), _sl(I[2]))
    return _sl(I)

def to_pyiga(ast, ctx):
    if ctx.get('share') is not None and ast[0] not in ('dx', 'ds', 'let'):
        import json
        key = json.dumps(ast)
        if key not in ctx['share']: ctx['share'][key] = _to_pyiga(ast, ctx)
        return ctx['share'][key]
    return _to_pyiga(ast, ctx)

def _to_pyiga(ast, ctx):
    from pyiga import vform as V
    op = ast[0]
    R = lambda a: to_pyiga(a, ctx)
    if op == 'const': return V.as_expr(float(ast[1]))
    if op == 'x': return ctx['vf'].Geo[ast[1]]
    if op == 'xvec': return ctx['vf'].Geo
    if op == 'param': return ctx['params'][ast[1]]
    if op == 'field': return ctx['fields'][ast[1]]
    if op == 'let':
        # a named variable; identical bodies share one variable, different bodies get different names (the name in the AST is decorative)
        import json
        key = json.dumps(ast[2]); lets = ctx.setdefault('lets', {})
        if key not in lets: lets[key] = ctx['vf'].let('w%d' % len(lets), R(ast[2]))
        return lets[key]
    if op == 'u': return ctx['u']
    if op == 'v': return ctx['v']
    if op == 'gw': return ctx['vf'].GaussWeight
    if op == 'jac': return ctx['vf'].Jac
    if op == 'normal': return ctx['vf'].normal
    if op == 'dx': return V.dx
    if op == 'ds': return V.ds
    if op == 'Dx': return V.Dx(R(ast[1]), ast[2], parametric=bool(ast[3]))
    if op == 'grad': return V.grad(R(ast[1]), parametric=bool(ast[2]))
    if op == 'div': return V.div(R(ast[1]), parametric=bool(ast[2]))
    if op == 'curl': return V.curl(R(ast[1]))
    if op == 'hess': return V.hess(R(ast[1]), parametric=bool(ast[2]))
    if op == 'neg': return -R(ast[1])
    if op == '+': return R(ast[1]) + R(ast[2])
    if op == '-': return R(ast[1]) - R(ast[2])
    if op == '*': return R(ast[1]) * R(ast[2])
    if op == '/': return R(ast[1]) / R(ast[2])
    if op == 'pow': return R(ast[1]) ** int(ast[2])
    if op == 'fn':
        return abs(R(ast[2])) if ast[1] == 'abs' else getattr(V, ast[1])(R(ast[2]))
    if op == 'vec': return V.as_vector([R(e) for e in ast[1]])
    if op == 'mat': return V.as_matrix([[R(e) for e in row] for row in ast[1]])
    if op == 'idx': return R(ast[1])[py_index(ast[2])]
    if op == 'inner': return V.inner(R(ast[1]), R(ast[2]))
    if op == 'dot': return V.dot(R(ast[1]), R(ast[2]))
    if op == 'cross': return V.cross(R(ast[1]), R(ast[2]))
    if op == 'outer': return V.outer(R(ast[1]), R(ast[2]))
    if op == 'det': return V.det(R(ast[1]))
    if op == 'inv': return V.inv(R(ast[1]))
    if op == 'tr': return V.tr(R(ast[1]))
    if op == 'T': return R(ast[1]).T
    raise ValueError('unknown node %r' % (op,))

def make_vform(desc):
    """Construct the VForm; exceptions raised by pyiga during construction are wrapped in Rejected."""
    from pyiga import vform as V
    try:
        vf = V.VForm(desc['dim'], geo_dim=desc.get('geo_dim', desc['dim']), boundary=bool(desc.get('boundary', False)), arity=desc['arity'],
                     spacetime=bool(desc.get('spacetime', False)))
        comps = tuple(desc.get('components', [None, None])); spaces = tuple(desc.get('spaces', [0, 0]))
        bf = vf.basisfuns(components=comps, spaces=spaces)
        ctx = {'vf': vf, 'fields': {}, 'params': {}, 'share': {} if desc.get('share_objects') else None}
        if desc['arity'] == 1: ctx['u'] = bf; ctx['v'] = bf
        else: ctx['u'], ctx['v'] = bf
        for name, f in desc.get('fields', {}).items():
            ctx['fields'][name] = vf.input(name, shape=tuple(f['shape']), physical=bool(f['physical']), updatable=bool(f.get('updatable', False)))
        for name, shp in desc.get('params', {}).items():
            ctx['params'][name] = vf.parameter(name, shape=tuple(shp))
        for e in desc['exprs']:
            vf.add(to_pyiga(e, ctx))
        return vf
    except Exception as e:
        raise Rejected(e)
