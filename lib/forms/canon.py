"""Normal form of generated assembler source, for deciding "identical code up to the order of independent statements".

The generator numbers its temporaries (_tmpN) and storage slots (fields[k], temp_fields[k]) in an order that depends on
set/dict iteration over objects hashed by identity, so two generations of the *same* form may differ by a renaming of
temporaries and a permutation of independent assignments.  The normal form
  1. renames storage slots to the variable names given by the '#  - name: ofs= sz=' tables,
  2. renames every temporary to a digest of its (recursively renamed) defining statements,
  3. compares the sorted stripped lines, and
  4. requires, in each text, that every temporary is assigned before it is used within its function.
"""
import re, hashlib

_TABLE = re.compile(r'^\s*#\s+-\s+(\w+): ofs=(\d+) sz=(\d+)\s*$')
_TMP = re.compile(r'\b_tmp\d+\b')

def _slot_tables(lines):
    """{'fields': [(ofs, sz, name)], 'temp_fields': [...]} from the comment tables of one class."""
    tabs = {'fields': [], 'temp_fields': []}; cur = None
    for l in lines:
        s = l.strip()
        if s == '# Fields:': cur = 'fields'; continue
        if s == '# Temp fields:': cur = 'temp_fields'; continue
        m = _TABLE.match(l)
        if m and cur: tabs[cur].append((int(m.group(2)), int(m.group(3)), m.group(1)))
        else: cur = None
    return tabs

def _slot_name(tab, k):
    for ofs, sz, name in tab:
        if ofs <= k < ofs + sz: return '%s@%d' % (name, k - ofs)
    return 'slot%d' % k

def _rename_slots(lines, tabs):
    out = []
    for l in lines:
        m = _TABLE.match(l)
        if m:
            out.append('#  - %s: sz=%s' % (m.group(1), m.group(3))); continue
        l = re.sub(r'\btemp_fields\[(\d+)\]', lambda m: 'temp_fields[%s]' % _slot_name(tabs['temp_fields'], int(m.group(1))), l)
        l = re.sub(r'(?<![\w.])fields\[(\d+)\]', lambda m: 'fields[%s]' % _slot_name(tabs['fields'], int(m.group(1))), l)
        def sl(m):
            which = 'temp_fields' if m.group(1).startswith('temp_fields') else 'fields'
            return '%s.base[%s%s] =' % (m.group(1), m.group(2), _slot_name(tabs[which], int(m.group(3))).split('@')[0])
        l = re.sub(r'\b(self\.fields|temp_fields)\.base\[((?::, )*)(\d+):(\d+)\] =', sl, l)
        out.append(l)
    return out

def _blocks(lines):
    """Variable definition blocks: a comment line '# name' followed by assignment lines 'name = ..', 'name[i] = ..', 'fields[..] = ..'."""
    defs = {}
    i = 0
    while i < len(lines):
        s = lines[i].strip()
        m = re.match(r'^# (\w+)$', s)
        if m:
            name = m.group(1); body = []; j = i + 1
            while j < len(lines) and lines[j].strip() and not lines[j].strip().startswith('#') and ' = ' in lines[j]:
                body.append(lines[j].strip()); j += 1
            if body: defs.setdefault(name, []).append(body)
            i = j
        else: i += 1
    return defs

def _tmp_sigs(defs):
    memo = {}
    def sig(name, stack=()):
        if name in memo: return memo[name]
        if name in stack or name not in defs: return name
        parts = []
        for body in defs[name]:
            for st in body:
                lhs, rhs = st.split(' = ', 1)
                lhs = re.sub(r'^%s\b' % re.escape(name), '<self>', lhs)
                rhs = _TMP.sub(lambda m: sig(m.group(0), stack + (name,)), rhs)
                parts.append(lhs + '=' + rhs)
        memo[name] = '_t' + hashlib.sha1('\n'.join(parts).encode()).hexdigest()[:12]
        return memo[name]
    return {n: sig(n) for n in defs if _TMP.fullmatch(n)}

_TREF = re.compile(r'(?<!\[)\b_t[0-9a-f]{12}\b')
_SLOT = re.compile(r'\b(?:temp_)?fields\[[\w@]+\]')

def _def_before_use(lines):
    """Within each function, a temporary (local, or stored in a slot which this function assigns) is assigned before it is read."""
    funcs = []; cur = []
    for l in lines:
        s = l.strip()
        if re.match(r'^(cdef|def|cpdef) .*\(', s) and not s.startswith('cdef double') and not s.startswith('cdef size_t') and not s.startswith('cdef ('):
            funcs.append(cur); cur = []
        cur.append(s)
    funcs.append(cur)
    for f in funcs:
        stmts = []
        for s in f:
            if s.startswith('#') or s.startswith('cdef'): continue
            if ' = ' in s:
                lhs, rhs = s.split(' = ', 1); stmts.append((lhs, rhs))
            elif s.startswith('r += ') or s.startswith('result['): stmts.append((None, s))
        slots_assigned_here = set(m for lhs, _ in stmts if lhs for m in _SLOT.findall(lhs))
        assigned = set()
        for lhs, rhs in stmts:
            for t in _TREF.findall(rhs):
                if t not in assigned: return False
            for t in _SLOT.findall(rhs):
                if t in slots_assigned_here and t not in assigned: return False
            if lhs:
                m = re.match(r'^(_t[0-9a-f]{12})\b', lhs)
                if m: assigned.add(m.group(1))
                for t in _SLOT.findall(lhs): assigned.add(t)
    return True

def normal_form(text):
    """(sorted lines, def_before_use_ok)."""
    lines = text.splitlines()
    # per class, since slot tables and temporaries are per assembler
    chunks = []; cur = []
    for l in lines:
        if l.startswith('cdef class ') and cur:
            chunks.append(cur); cur = []
        cur.append(l)
    chunks.append(cur)
    out = []; ok = True
    for ch in chunks:
        tabs = _slot_tables(ch)
        ch = _rename_slots(ch, tabs)
        sigs = _tmp_sigs(_blocks(ch))
        ch = [_TMP.sub(lambda m: sigs.get(m.group(0), m.group(0)), l) for l in ch]
        ok = ok and _def_before_use(ch)
        out += [l.strip() for l in ch if l.strip()]
    return sorted(out), ok

def same_code(a, b):
    """'bytes' | 'renamed' (equal normal forms) | None."""
    if a == b: return 'bytes'
    na, oka = normal_form(a); nb, okb = normal_form(b)
    if na == nb and oka and okb: return 'renamed'
    return None

def first_difference(a, b):
    na, _ = normal_form(a); nb, _ = normal_form(b)
    sa, sb = set(na), set(nb)
    return {'only_in_first': sorted(sa - sb)[:3], 'only_in_second': sorted(sb - sa)[:3]}

def precomputed_from(text, input_names):
    """Names among `input_names` (input fields) whose stored arrays are read by the assignments of precompute_fields, i.e.
    inputs from which other stored quantities are derived once at construction time."""
    lines = text.splitlines()
    i0 = next((i for i, l in enumerate(lines) if l.startswith('cdef class ')), 0)
    ch = _rename_slots(lines[i0:], _slot_tables(lines[i0:]))
    inside = False; found = set()
    for l in ch:
        st = l.strip()
        if st.startswith('cdef void precompute_fields('): inside = True; continue
        if inside and re.match(r'^(cdef|def|cpdef) .*\(', st) and not st.startswith(('cdef double', 'cdef size_t')): inside = False
        if inside and ' = ' in st and not st.startswith('#'):
            rhs = st.split(' = ', 1)[1]
            for n in input_names:
                if re.search(r'fields\[%s_(a|grad_a|hess_a)@' % re.escape(n), rhs): found.add(n)
    return sorted(found)
