"""Second-order jet arithmetic (forward-mode AD) in the parametric coordinates, vectorised over
evaluation points.  A Jet carries value, gradient and Hessian w.r.t. xi = (xi_0..xi_{d-1})
(xi_0 is the x direction).  order = highest derivative known (2, 1 or 0); taking a partial
derivative lowers the order by one.  Used by the semantic interpreter of generated forms."""
import numpy as np

class JetOrderError(Exception):
    pass

class Jet:
    __slots__ = ('v', 'g', 'H', 'd')
    def __init__(self, v, g=None, H=None, d=None):
        self.v = np.asarray(v, dtype=float)
        self.g = None if g is None else np.asarray(g, dtype=float)
        self.H = None if H is None else np.asarray(H, dtype=float)
        self.d = d if d is not None else (self.g.shape[-1] if self.g is not None else None)

    @property
    def order(self):
        return 2 if self.H is not None else (1 if self.g is not None else 0)

    @staticmethod
    def const(c, like=None, d=None):
        if like is not None:
            shp = like.v.shape; d = like.d
            return Jet(np.full(shp, float(c)), np.zeros(shp + (d,)), np.zeros(shp + (d, d)), d)
        return Jet(np.asarray(float(c)), None if d is None else np.zeros((d,)), None if d is None else np.zeros((d, d)), d)

    def dxi(self, k):
        """Partial derivative w.r.t. xi_k as a jet of one order less."""
        if self.g is None: raise JetOrderError('derivative of an order-0 quantity')
        return Jet(self.g[..., k], None if self.H is None else self.H[..., k, :], None, self.d)

    def lower(self, order):
        if order >= self.order: return self
        return Jet(self.v, self.g if order >= 1 else None, None, self.d)

def _wrap(x, like):
    if isinstance(x, Jet): return x
    return Jet(np.broadcast_to(np.asarray(float(x)), like.v.shape), None if like.g is None else np.zeros(like.g.shape), None if like.H is None else np.zeros(like.H.shape), like.d)

def _common(a, b):
    if not isinstance(a, Jet): a = _wrap(a, b)
    if not isinstance(b, Jet): b = _wrap(b, a)
    o = min(a.order, b.order)
    a = a.lower(o); b = b.lower(o)
    # broadcast shapes of the point axes
    shp = np.broadcast_shapes(a.v.shape, b.v.shape)
    def bc(j):
        d = j.d if j.d is not None else (a.d if a.d is not None else b.d)
        return Jet(np.broadcast_to(j.v, shp), None if j.g is None else np.broadcast_to(j.g, shp + (d,)), None if j.H is None else np.broadcast_to(j.H, shp + (d, d)), d)
    return bc(a), bc(b)

def add(a, b):
    a, b = _common(a, b)
    return Jet(a.v + b.v, None if a.g is None else a.g + b.g, None if a.H is None else a.H + b.H, a.d)

def sub(a, b):
    a, b = _common(a, b)
    return Jet(a.v - b.v, None if a.g is None else a.g - b.g, None if a.H is None else a.H - b.H, a.d)

def neg(a):
    return Jet(-a.v, None if a.g is None else -a.g, None if a.H is None else -a.H, a.d)

def mul(a, b):
    a, b = _common(a, b)
    v = a.v * b.v
    g = None if a.g is None else a.v[..., None] * b.g + b.v[..., None] * a.g
    H = None
    if a.H is not None:
        H = (a.v[..., None, None] * b.H + b.v[..., None, None] * a.H
             + a.g[..., :, None] * b.g[..., None, :] + b.g[..., :, None] * a.g[..., None, :])
    return Jet(v, g, H, a.d)

def func(a, f, f1, f2):
    """f(a) with derivatives f1 = f', f2 = f'' given as arrays evaluated at a.v."""
    v = f
    g = None if a.g is None else f1[..., None] * a.g
    H = None if a.H is None else f1[..., None, None] * a.H + f2[..., None, None] * a.g[..., :, None] * a.g[..., None, :]
    return Jet(v, g, H, a.d)

def recip(b):
    return func(b, 1.0 / b.v, -1.0 / b.v ** 2, 2.0 / b.v ** 3)

def div(a, b):
    a, b = _common(a, b)
    return mul(a, recip(b))

def powi(a, k):
    k = int(k)
    if k == 0: return _wrap(1.0, a)
    if k < 0: return recip(powi(a, -k))
    r = a
    for _ in range(k - 1): r = mul(r, a)
    return r

def builtin(name, a):
    x = a.v
    with np.errstate(all='ignore'):
        if name == 'abs': return func(a, np.abs(x), np.sign(x), np.zeros_like(x))
        if name == 'sqrt': s = np.sqrt(x); return func(a, s, 0.5 / s, -0.25 / (s * x))
        if name == 'exp': e = np.exp(x); return func(a, e, e, e)
        if name == 'log': return func(a, np.log(x), 1.0 / x, -1.0 / x ** 2)
        if name == 'sin': return func(a, np.sin(x), np.cos(x), -np.sin(x))
        if name == 'cos': return func(a, np.cos(x), -np.sin(x), -np.cos(x))
        if name == 'tan': t = np.tan(x); return func(a, t, 1 + t * t, 2 * t * (1 + t * t))
    raise ValueError(name)

# ---- small dense linear algebra over jets (lists of lists) --------------------------------------
def mat_minor(A, i, j):
    return [[A[r][c] for c in range(len(A[0])) if c != j] for r in range(len(A)) if r != i]

def det(A):
    n = len(A)
    if n == 1: return A[0][0]
    if n == 2: return sub(mul(A[0][0], A[1][1]), mul(A[0][1], A[1][0]))
    acc = None
    for j in range(n):
        t = mul(A[0][j], det(mat_minor(A, 0, j)))
        if j % 2: t = neg(t)
        acc = t if acc is None else add(acc, t)
    return acc

def inv(A):
    n = len(A)
    d = recip(det(A))
    if n == 1: return [[d]]
    out = [[None] * n for _ in range(n)]
    for i in range(n):
        for j in range(n):
            c = det(mat_minor(A, j, i))
            if (i + j) % 2: c = neg(c)
            out[i][j] = mul(c, d)
    return out

def matmul(A, B):
    n, m, r = len(A), len(B), len(B[0])
    out = [[None] * r for _ in range(n)]
    for i in range(n):
        for j in range(r):
            acc = None
            for k in range(m):
                t = mul(A[i][k], B[k][j])
                acc = t if acc is None else add(acc, t)
            out[i][j] = acc
    return out

def matvec(A, x):
    return [c[0] for c in matmul(A, [[xi] for xi in x])]

def transpose(A):
    return [[A[i][j] for i in range(len(A))] for j in range(len(A[0]))]
