"""Semantic interpreter of generated variational-form ASTs (the generator's own AST, not pyiga's
expression tree).  Every operator is evaluated from its mathematical definition with jet
arithmetic: physical gradients are J^{-T} grad_xi, physical Hessians follow by differentiating
those once more (which brings in the geometry Hessian), dx = w |det J|, ds = w ||n||, the unit
normal follows the right-hand rule (surfaces) resp. points outward (boundary faces), builtin
functions are evaluated by name.  Nothing here looks at pyiga's expression classes.

AST nodes (JSON-able lists):
  ['const', c] ['x', i] ['xvec'] ['param', name] ['field', name] ['u'] ['v'] (whole basis function: scalar or vector)
  ['gw'] ['jac'] ['normal'] ['dx'] ['ds']
  ['Dx', e, k, parametric] ['grad', e, parametric] ['div', e, parametric] ['curl', e] ['hess', e, parametric]
  ['neg', e] ['+', a, b] ['-', a, b] ['*', a, b] ['/', a, b] ['pow', a, k] ['fn', name, e]
  ['vec', [e..]] ['mat', [[e..]..]] ['idx', e, I] (I: int | ['s',a,b] for vectors; ['m', i, j] with i,j int | ':' | ['s',a,b] for matrices)
  ['inner', a, b] ['dot', a, b] ['cross', a, b] ['outer', a, b] ['det', A] ['inv', A] ['tr', A] ['T', A]
Values: scalar -> Jet; vector -> list of Jet; matrix -> list of lists of Jet.
"""
import numpy as np
from . import jets as J
from .jets import Jet

class Unsupported(Exception):
    pass

class Env:
    """Evaluation environment at P points.
    d: parametric dimension, g: geometry dimension, boundary: None or (axis, side) in knot-vector axis numbering.
    X: list of g Jets (order 2) = geometry components as functions of xi (xi_0 = x = LAST knot vector).
    gw: array (P,).  bf: {'u': value, 'v': value} where value is a Jet (scalar basis function) or list of Jets (vector).
    fields: name -> value (Jet / list / list of lists; order 2 for parametric fields, 0 for physical ones).
    params: name -> ndarray."""
    def __init__(self, d, g, X, gw, bf, fields=None, params=None, boundary=None):
        self.d, self.g, self.X, self.gw, self.bf = d, g, X, np.asarray(gw, dtype=float), bf
        self.fields = fields or {}; self.params = params or {}; self.boundary = boundary
        self._cache = {}

    def like(self):
        return self.X[0]

    def jac(self):
        if 'jac' not in self._cache:
            self._cache['jac'] = [[self.X[i].dxi(j) for j in range(self.d)] for i in range(self.g)]
        return self._cache['jac']

    def jacinv(self):
        if self.g != self.d: raise Unsupported('physical derivatives need a square Jacobian')
        if 'jacinv' not in self._cache:
            self._cache['jacinv'] = J.inv(self.jac())
        return self._cache['jacinv']

    def unscaled_normal(self):
        """Values only (arrays)."""
        Jv = [[e.v for e in row] for row in self.jac()]
        if self.boundary is not None:
            ax, side = self.boundary
            j = self.d - 1 - ax
            nu = np.zeros(self.d); nu[j] = 1.0 if side == 1 else -1.0
            Jm = np.stack([np.stack(r, axis=-1) for r in Jv], axis=-2)            # (P, g, d)
            Ji = np.linalg.inv(Jm)
            n = np.einsum('...mi,m->...i', Ji, nu)                                 # J^{-T} nu
            detJ = np.linalg.det(Jm)
            return [n[..., i] * np.abs(detJ) for i in range(self.g)]               # Nanson: |det J| J^{-T} nu
        if self.d == 1 and self.g == 2:
            return [-Jv[1][0], Jv[0][0]]
        if self.d == 2 and self.g == 3:
            a = [Jv[i][0] for i in range(3)]; b = [Jv[i][1] for i in range(3)]
            return [a[1] * b[2] - a[2] * b[1], a[2] * b[0] - a[0] * b[2], a[0] * b[1] - a[1] * b[0]]
        raise Unsupported('no normal for volume integrals')

def _is_scalar(v): return isinstance(v, Jet)
def _is_vec(v): return isinstance(v, list) and (len(v) == 0 or isinstance(v[0], Jet))
def _is_mat(v): return isinstance(v, list) and len(v) > 0 and isinstance(v[0], list)

def _shape(v):
    if _is_scalar(v): return ()
    if _is_vec(v): return (len(v),)
    return (len(v), len(v[0]))

def _bin(op, a, b):
    f = {'+': J.add, '-': J.sub, '*': J.mul, '/': J.div}[op]
    sa, sb = _shape(a), _shape(b)
    if sa == () and sb == (): return f(a, b)
    if sa == (): a = _bcast(a, sb); sa = sb
    if sb == (): b = _bcast(b, sa); sb = sa
    if sa != sb: raise Unsupported('shape mismatch %s %s' % (sa, sb))
    if len(sa) == 1: return [f(x, y) for x, y in zip(a, b)]
    return [[f(x, y) for x, y in zip(ra, rb)] for ra, rb in zip(a, b)]

def _bcast(s, shape):
    if len(shape) == 1: return [s] * shape[0]
    return [[s] * shape[1] for _ in range(shape[0])]

def _sum(items):
    acc = None
    for t in items: acc = t if acc is None else J.add(acc, t)
    return acc

def phys_dx(env, e, k):
    """Physical partial derivative d/dx_k of a scalar jet."""
    Ji = env.jacinv()
    return _sum(J.mul(Ji[m][k], e.dxi(m)) for m in range(env.d))

def _Dx(env, v, k, parametric):
    if _is_scalar(v):
        return v.dxi(k) if parametric else phys_dx(env, v, k)
    if _is_vec(v): return [_Dx(env, c, k, parametric) for c in v]
    raise Unsupported('derivative of a matrix')

def _grad(env, v, parametric):
    n = env.d
    if _is_scalar(v): return [_Dx(env, v, k, parametric) for k in range(n)]
    if _is_vec(v): return [[_Dx(env, c, k, parametric) for k in range(n)] for c in v]
    raise Unsupported('gradient of a matrix')

def evaluate(ast, env):
    op = ast[0]
    like = env.like()
    if op == 'const': return J._wrap(float(ast[1]), like)
    if op == 'x': return env.X[ast[1]]
    if op == 'xvec': return list(env.X)
    if op == 'param':
        a = np.asarray(env.params[ast[1]], dtype=float)
        if a.ndim == 0: return J._wrap(float(a), like)
        if a.ndim == 1: return [J._wrap(float(x), like) for x in a]
        return [[J._wrap(float(x), like) for x in row] for row in a]
    if op == 'field': return env.fields[ast[1]]
    if op == 'let': return evaluate(ast[2], env)        # a named variable denotes its defining expression
    if op in ('u', 'v'): return env.bf[op]
    if op == 'gw': return Jet(env.gw, None, None, env.d)
    if op == 'jac': return env.jac()
    if op == 'normal':
        un = env.unscaled_normal(); nn = np.sqrt(sum(c * c for c in un))
        return [Jet(c / nn, None, None, env.d) for c in un]
    if op == 'dx':
        if env.g != env.d or env.boundary is not None: raise Unsupported('dx on a surface')
        Jm = np.stack([np.stack([e.v for e in r], axis=-1) for r in env.jac()], axis=-2)
        return Jet(env.gw * np.abs(np.linalg.det(Jm)), None, None, env.d)
    if op == 'ds':
        un = env.unscaled_normal()
        return Jet(env.gw * np.sqrt(sum(c * c for c in un)), None, None, env.d)
    if op == 'Dx': return _Dx(env, evaluate(ast[1], env), ast[2], ast[3])
    if op == 'grad': return _grad(env, evaluate(ast[1], env), ast[2])
    if op == 'div':
        G = _grad(env, evaluate(ast[1], env), ast[2])
        if not _is_mat(G) or len(G) != len(G[0]): raise Unsupported('div needs a square Jacobian')
        return _sum(G[i][i] for i in range(len(G)))
    if op == 'curl':
        v = evaluate(ast[1], env)
        d = lambda c, k: _Dx(env, v[c], k, False)
        return [J.sub(d(2, 1), d(1, 2)), J.sub(d(0, 2), d(2, 0)), J.sub(d(1, 0), d(0, 1))]
    if op == 'hess':
        v = evaluate(ast[1], env)
        return _grad(env, _grad(env, v, ast[2]), ast[2])
    if op == 'neg':
        v = evaluate(ast[1], env)
        if _is_scalar(v): return J.neg(v)
        raise Unsupported('can only negate scalars')
    if op in ('+', '-', '*', '/'): return _bin(op, evaluate(ast[1], env), evaluate(ast[2], env))
    if op == 'pow': return J.powi(evaluate(ast[1], env), ast[2])
    if op == 'fn': return J.builtin(ast[1], evaluate(ast[2], env))
    if op == 'vec': return [evaluate(e, env) for e in ast[1]]
    if op == 'mat': return [[evaluate(e, env) for e in row] for row in ast[1]]
    if op == 'idx':
        v = evaluate(ast[1], env); I = ast[2]
        if isinstance(I, list) and I and I[0] == 'm':
            i, j = I[1], I[2]
            si, sj = isinstance(i, int), isinstance(j, int)
            if si and sj: return v[i][j]
            if si: return [v[i][jj] for jj in range(len(v[0]))[_sl(j)]]
            if sj: return [v[ii][j] for ii in range(len(v))[_sl(i)]]
            return [[v[ii][jj] for jj in range(len(v[0]))[_sl(j)]] for ii in range(len(v))[_sl(i)]]
        if isinstance(I, int): return v[I]
        return [v[i] for i in range(len(v))[_sl(I)]]
    if op == 'inner':
        a, b = evaluate(ast[1], env), evaluate(ast[2], env)
        if _is_vec(a): return _sum(J.mul(x, y) for x, y in zip(a, b))
        return _sum(J.mul(a[i][j], b[i][j]) for i in range(len(a)) for j in range(len(a[0])))
    if op == 'dot':
        a, b = evaluate(ast[1], env), evaluate(ast[2], env)
        if _is_vec(a) and _is_vec(b): return _sum(J.mul(x, y) for x, y in zip(a, b))
        if _is_mat(a) and _is_vec(b): return J.matvec(a, b)
        if _is_mat(a) and _is_mat(b): return J.matmul(a, b)
        raise Unsupported('dot')
    if op == 'cross':
        a, b = evaluate(ast[1], env), evaluate(ast[2], env)
        return [J.sub(J.mul(a[1], b[2]), J.mul(a[2], b[1])), J.sub(J.mul(a[2], b[0]), J.mul(a[0], b[2])), J.sub(J.mul(a[0], b[1]), J.mul(a[1], b[0]))]
    if op == 'outer':
        a, b = evaluate(ast[1], env), evaluate(ast[2], env)
        return [[J.mul(x, y) for y in b] for x in a]
    if op == 'det': return J.det(evaluate(ast[1], env))
    if op == 'inv': return J.inv(evaluate(ast[1], env))
    if op == 'tr':
        A = evaluate(ast[1], env); return _sum(A[i][i] for i in range(len(A)))
    if op == 'T': return J.transpose(evaluate(ast[1], env))
    raise Unsupported('unknown node %r' % (op,))

def _sl(s):
    if s == ':': return slice(None)
    if isinstance(s, list) and s and s[0] == 's': return slice(s[1], s[2])
    raise Unsupported('index %r' % (s,))
