"""Tree-walking interpreter over pyiga's expression node classes (all intermediate node kinds of the
form compiler), evaluated under K random real environments at once (numpy arrays of shape (K,)).

Leaf semantics come from the mathematical definitions (via forms.sem / forms.jets), not from
pyiga: physical derivatives of basis functions and fields are computed from parametric jets and
the geometry jets, dx = w |det J|, ds = w ||n||.  Two modes:
  * follow=True : a reference to a variable defined by an expression evaluates that expression
  * follow=False: variables are read from a store; reading an undefined one raises ReadBeforeWrite
                  (straight-line execution of the finalized program)
"""
import itertools
import numpy as np
from . import sem, jets as J
from .jets import Jet

class ReadBeforeWrite(Exception):
    pass

class Unknown(Exception):
    pass

def all_D(d, maxorder):
    return [D for D in itertools.product(range(maxorder + 1), repeat=d) if sum(D) <= maxorder]

class TreeEnv:
    """K random environments for a VForm.  All arrays have leading shape (K,)."""
    def __init__(self, vf, rng, K=8, params=None):
        from pyiga import vform as V
        self.vf = vf; self.K = K
        d, g = vf.dim, vf.geo_dim
        self.d, self.g = d, g
        self.spacetime = bool(vf.spacetime)
        # geometry jets: well conditioned Jacobian, random Hessian
        Jm = rng.standard_normal((K, g, d)) * 0.25
        for i in range(min(g, d)): Jm[:, i, i] += 1.0 + rng.uniform(0, 0.5, K)
        if g == d:
            # orientation preserving (the outward boundary normal is n = J^{-T} nu / |.| only for det J > 0) and safely invertible:
            # redraw the rare bad environment
            t = d - 1
            for k in range(K):
                while True:
                    M = Jm[k].copy()
                    if self.spacetime: M[:, t] = 0.0; M[t, :] = 0.0; M[t, t] = 1.0
                    if np.linalg.det(M) >= 0.3: break
                    Jm[k] = rng.standard_normal((g, d)) * 0.2 + np.diag(1.0 + rng.uniform(0, 0.5, d))
        H = rng.standard_normal((K, g, d, d)) * 0.5
        H = (H + np.swapaxes(H, -1, -2)) / 2
        if self.spacetime:
            # space-time cylinder G(x,t) = (G~(x), t): time is the LAST coordinate index d-1 in xi numbering? pyiga: timedim = dim-1
            t = d - 1
            Jm[:, :, t] = 0.0; Jm[:, t, :] = 0.0; Jm[:, t, t] = 1.0
            H[:, :, t, :] = 0.0; H[:, :, :, t] = 0.0; H[:, t, :, :] = 0.0
        Xv = rng.standard_normal((K, g))
        self.X = [Jet(Xv[:, i], Jm[:, i, :], H[:, i, :, :], d) for i in range(g)]
        self.gwaxis = [rng.uniform(0.2, 1.5, K) for _ in range(d)]
        self.boundary = None
        self.params = dict(params or {})
        if vf.is_boundary_integral():
            ax = int(rng.integers(0, d)); side = int(rng.integers(0, 2))
            self.boundary = (ax, side)
            self.gwaxis[ax] = np.ones(K)
            from pyiga import assemble
            self.params['Jac_to_boundary'] = assemble._Jac_to_boundary_matrix((ax, side), d)
        for p in vf.params:
            if p.name not in self.params:
                self.params[p.name] = rng.uniform(0.5, 1.5, size=tuple(p.shape)) * rng.choice([-1.0, 1.0], size=tuple(p.shape))
        # basis function parametric jets (all orders <= 3 as independent random numbers)
        self.bder = {}
        for bf in vf.basis_funs:
            self.bder[bf.name] = {D: rng.standard_normal(K) for D in all_D(d, 3)}
        # input fields: parametric jets
        self.fields = {}
        for inp in vf.inputs:
            if inp.name == 'geo': continue
            shp = tuple(inp.shape)
            self.fields[inp.name] = {'val': rng.uniform(0.5, 1.5, (K,) + shp) * rng.choice([-1.0, 1.0], (K,) + shp), 'grad': rng.standard_normal((K,) + shp + (d,)),
                                     'hess': self._symrand(rng, (K,) + shp, d), 'physical': bool(inp.physical)}
        gw = np.ones(K)
        for a in self.gwaxis: gw = gw * a
        self.sem = sem.Env(d, g, self.X, gw, {}, boundary=self.boundary)
        self._cache = {}

    @staticmethod
    def _symrand(rng, lead, d):
        H = rng.standard_normal(lead + (d, d))
        return (H + np.swapaxes(H, -1, -2)) / 2

    # ---- jets -------------------------------------------------------------------------------
    def bf_jet(self, name, base=None):
        """Jet2 of the parametric derivative D^base of basis function `name`."""
        d = self.d; base = base or (0,) * d
        tab = self.bder[name]
        def at(D):
            key = tuple(b + x for b, x in zip(base, D))
            if key not in tab: raise Unknown('basis function derivative of order %d' % sum(key))
            return tab[key]
        e = lambda k: tuple(1 if i == k else 0 for i in range(d))
        g = np.stack([at(e(k)) for k in range(d)], axis=-1)
        Hm = np.stack([np.stack([at(tuple(a + b for a, b in zip(e(i), e(j)))) for j in range(d)], axis=-1) for i in range(d)], axis=-2)
        return Jet(at((0,) * d), g, Hm, d)

    def field_jet(self, name, I):
        f = self.fields[name]
        idx = (slice(None),) + tuple(I)
        if f['physical']:
            return Jet(f['val'][idx], None, None, self.d)
        return Jet(f['val'][idx], f['grad'][idx], f['hess'][idx], self.d)

    def deriv_value(self, jet, D, physical):
        """Value of the derivative D of a scalar jet, parametric or physical (order <= 2)."""
        idxs = [k for k in range(self.d) for _ in range(D[k])]
        cur = jet
        for k in idxs:
            cur = cur.dxi(k) if not physical else sem.phys_dx(self.sem, cur, k)
        return cur.v

    def bf_deriv(self, name, D, physical):
        key = ('bf', name, tuple(D), bool(physical))
        if key not in self._cache:
            order = sum(D)
            if not physical or order == 0:
                self._cache[key] = self.bder[name][tuple(D)]
            elif self.spacetime:
                # physical derivatives in space, parametric in time (cylinder): apply the time part parametrically first
                t = self.d - 1
                base = tuple(0 if k != t else D[t] for k in range(self.d))
                Dx = tuple(D[k] if k != t else 0 for k in range(self.d))
                self._cache[key] = self.deriv_value(self.bf_jet(name, base), Dx, True)
            else:
                if order > 2: raise Unknown('physical derivative of order %d' % order)
                self._cache[key] = self.deriv_value(self.bf_jet(name), D, True)
        return self._cache[key]

V = None
class Interp:
    def __init__(self, env, follow=True, store=None):
        global V
        if V is None:
            from pyiga import vform as V
        self.env = env; self.follow = follow; self.store = store if store is not None else {}
        self.memo = {}

    def ev(self, e):
        """Evaluate a pyiga expression: scalar -> array (K,), vector -> list, matrix -> list of lists.
        Non-scalar node classes are evaluated from their definitions, not through pyiga's element expansion."""
        if e.shape == (): return self.scalar(e)
        t = type(e)
        if t is V.LiteralVectorExpr: return [self.scalar(c) for c in e.children]
        if t is V.LiteralMatrixExpr:
            m, n = e.shape
            return [[self.scalar(e.children[i * n + j]) for j in range(n)] for i in range(m)]
        if t is V.TensorOperExpr:
            a, b = self.ev(e.x), self.ev(e.y)
            f = {'+': np.add, '-': np.subtract, '*': np.multiply, '/': np.divide}[e.oper]
            if len(e.shape) == 1: return [f(x, y) for x, y in zip(a, b)]
            return [[f(x, y) for x, y in zip(ra, rb)] for ra, rb in zip(a, b)]
        if t is V.VectorCrossExpr:
            a, b = self.ev(e.x), self.ev(e.y)
            return [a[1] * b[2] - a[2] * b[1], a[2] * b[0] - a[0] * b[2], a[0] * b[1] - a[1] * b[0]]
        if t is V.OuterProdExpr:
            a, b = self.ev(e.x), self.ev(e.y)
            return [[x * y for y in b] for x in a]
        if t is V.MatVecExpr:
            A, x = self.ev(e.x), self.ev(e.y)
            return [sum(A[i][j] * x[j] for j in range(len(x))) for i in range(len(A))]
        if t is V.MatMatExpr:
            A, B = self.ev(e.x), self.ev(e.y)
            return [[sum(A[i][k] * B[k][j] for k in range(len(B))) for j in range(len(B[0]))] for i in range(len(A))]
        raise Unknown('non-scalar node %s' % t.__name__)

    def scalar(self, e):
        k = id(e)
        if k in self.memo and self.memo[k][0] is e: return self.memo[k][1]
        v = self._scalar(e)
        self.memo[k] = (e, v)
        return v

    def _scalar(self, e):
        env = self.env; K = env.K
        t = type(e)
        if t is V.ConstExpr: return np.full(K, e.value)
        if t is V.NegExpr: return -self.scalar(e.x)
        if t is V.ScalarOperExpr:
            a, b = self.scalar(e.x), self.scalar(e.y)
            with np.errstate(all='ignore'):
                return {'+': a + b, '-': a - b, '*': a * b, '/': a / b}[e.oper]
        if t is V.BuiltinFuncExpr:
            a = self.scalar(e.x)
            with np.errstate(all='ignore'):
                return {'abs': np.abs, 'sqrt': np.sqrt, 'exp': np.exp, 'log': np.log, 'sin': np.sin, 'cos': np.cos, 'tan': np.tan}[e.funcname](a)
        if t is V.PartialDerivExpr:
            bf = e.basisfun
            if bf.component is not None: raise Unknown('component basis function outside a vector form')
            return env.bf_deriv(bf.name, e.D, e.physical)
        if t is V.GaussWeightExpr: return env.gwaxis[e.axis]
        if t is V.VolumeMeasureExpr: return sem.evaluate(['dx'], env.sem).v
        if t is V.SurfaceMeasureExpr: return sem.evaluate(['ds'], env.sem).v
        if t is V.VarRefExpr: return self.varref(e)
        # non-scalar node classes never reach here as scalars
        raise Unknown('scalar node %s' % t.__name__)

    def varref(self, e):
        env = self.env; var = e.var
        if var.expr is not None:
            if sum(e.D) != 0: raise Unknown('derivative of an expression variable')
            if self.follow:
                sub = var.expr
            else:
                if var.name not in self.store: raise ReadBeforeWrite(var.name)
                return self._index(self.store[var.name], e.I, var)
            val = self.ev(sub)
            return self._index(val, e.I, var)
        src = var.src
        if isinstance(src, V.Parameter):
            a = np.asarray(env.params[src.name], dtype=float)
            return np.full(env.K, float(a[tuple(e.I)] if e.I else a))
        if isinstance(src, V.InputField):
            if not self.follow and var.name not in self.store: raise ReadBeforeWrite(var.name)
            if src.name == 'geo':
                return self._geo(var, e)
            nshape = len(src.shape)
            I0 = tuple(e.I[:nshape]); rest = tuple(e.I[nshape:])
            base = {0: (), 1: None, 2: None}
            if var.deriv == 0: jet = env.field_jet(src.name, I0)
            elif var.deriv == 1: jet = env.field_jet(src.name, I0).dxi(rest[0])
            else:
                # linearized symmetric Hessian index -> (i,j)
                pairs = [(i, j) for i in range(env.d) for j in range(i, env.d)]
                i, j = pairs[rest[0]]
                jet = env.field_jet(src.name, I0).dxi(i).dxi(j)
            if sum(e.D) == 0: return jet.v
            return env.deriv_value(jet, e.D, physical=not e.parametric)
        raise Unknown('variable without expression or source')

    def _geo(self, var, e):
        env = self.env
        if var.deriv == 0: jet = env.X[e.I[0]]
        elif var.deriv == 1: jet = env.X[e.I[0]].dxi(e.I[1])
        else:
            pairs = [(i, j) for i in range(env.d) for j in range(i, env.d)]
            i, j = pairs[e.I[1]]
            jet = env.X[e.I[0]].dxi(i).dxi(j)
        if sum(e.D) == 0: return jet.v
        if not e.parametric: raise Unknown('physical derivative of the geometry map')
        return env.deriv_value(jet, e.D, physical=False)

    @staticmethod
    def _index(val, I, var):
        if len(I) == 0: return val
        if len(I) == 1: return val[I[0]]
        return val[I[0]][I[1]]

def run_program(vf, env):
    """Execute the finalized form in emitted order: sourced variables, then precomp, then kernel_deps, then the
    kernel expressions.  Returns the list of values of vf.exprs; raises ReadBeforeWrite on use before definition."""
    from pyiga import vform as V
    store = {}
    it = Interp(env, follow=False, store=store)
    # inputs are loaded before anything runs
    for var in vf.linear_deps:
        if not isinstance(var, V.BasisFun) and var.src is not None:
            store[var.name] = True
    order = list(vf.precomp) + [v for v in vf.kernel_deps if v not in vf.precomp]
    for var in order:
        if var.expr is not None:
            store[var.name] = it.ev(var.expr)
    out = []
    for e in vf.exprs:
        out.append(it.ev(e))
    return out
