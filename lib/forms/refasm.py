"""Independent reference assembler for generated variational forms.

Shares no code with pyiga's pipeline: basis-function derivatives come from refmodels.bsp (Cox-de Boor), geometry and
parametric input fields from refmodels.tp / nurbs-by-quotient in jet arithmetic, the integrand from the semantic
interpreter forms.sem which runs on the generator's AST.  The integrand is (bi)linear in the jets of the basis functions,
so its kernel is extracted by substituting unit jets:  K[a,b](node) = integrand(u-jet = e_a, v-jet = e_b), and

    A[m, n] = sum_nodes sum_{a,b} K[a,b](node) * D^b psi_m(node) * D^a phi_n(node)

with Gauss-Legendre nodes, nqp = max degree + 1 per knot span.  Conventions: knot vectors / array axes are in zyx order,
parametric coordinate xi_k belongs to array axis d-1-k; A[m,n] = a(u_n, v_m); blocked layout (component-major).

A *problem* (JSON-able) = {'kvs': [[(knots, p) per axis] per space], 'geo': {...}, 'fields': {name: {...}}, 'params': {name: array}, 'boundary': None | [ax, side]}
"""
import itertools
import numpy as np
from numpy.polynomial.legendre import leggauss
from refmodels import bsp, tp
from . import sem, jets as J
from .jets import Jet

# ---- problem generation -------------------------------------------------------------------------------------
def random_kv(rng, p, breaks):
    """Open knot vector of degree p over the given breakpoints with random interior multiplicities 1..p."""
    kn = [breaks[0]] * (p + 1)
    for b in breaks[1:-1]:
        m = 1 if (p == 1 or rng.random() < 0.6) else int(rng.integers(1, p + 1))
        kn += [b] * m
    kn += [breaks[-1]] * (p + 1)
    return [float(x) for x in kn], int(p)

def random_breaks(rng, nspans):
    if nspans == 1: return [0.0, 1.0]
    if rng.random() < 0.4: return [float(x) for x in np.linspace(0, 1, nspans + 1)]
    inner = np.sort(rng.uniform(0.1, 0.9, nspans - 1))
    # keep spans from collapsing
    pts = np.concatenate([[0.0], inner, [1.0]])
    if np.min(np.diff(pts)) < 0.08: pts = np.linspace(0, 1, nspans + 1)
    return [float(round(x, 4)) for x in pts]

def _greville(kn, p):
    n = len(kn) - p - 1
    return np.array([sum(kn[i + 1:i + p + 1]) / p for i in range(n)]) if p > 0 else np.array([(kn[i] + kn[i + 1]) / 2 for i in range(n)])

def random_problem(rng, desc, max_spans=3):
    d = desc['dim']; g = desc['geo_dim']
    two = desc['arity'] == 2 and desc['spaces'] == [0, 1]
    # second derivatives of the basis functions make sense from degree 2 on, but any degree >= 1 is legal
    breaks = [random_breaks(rng, int(rng.integers(1, max_spans + 1))) for _ in range(d)]
    pmax = 3 if d < 3 else 2
    kvs0 = [random_kv(rng, int(rng.integers(1, pmax + 1)), breaks[a]) for a in range(d)]
    kvs = [kvs0]
    if two: kvs.append([random_kv(rng, int(rng.integers(1, pmax + 2)), breaks[a]) for a in range(d)])
    # geometry: perturbed identity (graph-like for surfaces), B-spline or NURBS
    gk = [random_kv(rng, int(rng.integers(1, 4)), random_breaks(rng, int(rng.integers(1, 3)))) for _ in range(d)]
    grev = [_greville(kn, p) for kn, p in gk]
    shape = tuple(len(x) for x in grev)
    C = np.zeros(shape + (g,))
    mesh = np.meshgrid(*grev, indexing='ij')
    for k in range(d):                       # physical coordinate k follows xi_k, i.e. array axis d-1-k
        C[..., k] = mesh[d - 1 - k]
    amp = 0.12
    C[..., :d] += rng.uniform(-amp, amp, shape + (d,)) / max(1, max(shape) - 1) * 2
    C[..., :d] *= rng.uniform(0.8, 2.0); C[..., :d] += rng.uniform(-1, 1, d)
    if g > d: C[..., d:] = rng.uniform(-0.4, 0.4, shape + (g - d,))
    geo = {'kvs': gk, 'coeffs': C.tolist()}
    if rng.random() < 0.35: geo['weights'] = rng.uniform(0.7, 1.4, shape).tolist()
    fields = {}
    for name, f in desc.get('fields', {}).items():
        shp = tuple(f['shape'])
        if f['physical']:
            fields[name] = {'kind': 'callable_phys', 'a': rng.uniform(-1, 1, shp + (g + 1,)).tolist(), 'w': rng.uniform(0.5, 2.0, shp + (g,)).tolist()}
        else:
            fk = [random_kv(rng, int(rng.integers(1, 4)), random_breaks(rng, int(rng.integers(1, 3)))) for _ in range(d)]
            fshape = tuple(len(kn) - p - 1 for kn, p in fk)
            fields[name] = {'kind': 'bspline', 'kvs': fk, 'coeffs': (rng.uniform(0.5, 1.5, fshape + shp) * rng.choice([-1.0, 1.0], fshape + shp)).tolist()}
    params = {name: (rng.uniform(0.5, 1.5, tuple(shp)) * rng.choice([-1.0, 1.0], tuple(shp))).tolist() for name, shp in desc.get('params', {}).items()}
    boundary = [int(rng.integers(0, d)), int(rng.integers(0, 2))] if desc.get('boundary') else None
    return {'kvs': kvs, 'geo': geo, 'fields': fields, 'params': params, 'boundary': boundary}

def phys_callable(spec, shape):
    """Smooth function of the physical coordinates: a0 + sum_i a_i sin(w_i x_i), per entry."""
    a = np.asarray(spec['a'], dtype=float); w = np.asarray(spec['w'], dtype=float)
    def f(*X):
        X = [np.asarray(x, dtype=float) for x in X]
        full = np.broadcast_shapes(*[x.shape for x in X])
        out = np.empty(full + tuple(shape))
        for I in itertools.product(*[range(s) for s in shape]):
            v = np.full(full, a[I + (len(X),)])
            for i, x in enumerate(X): v = v + a[I + (i,)] * np.sin(w[I + (i,)] * x)
            out[(Ellipsis,) + I] = v
        return out
    return f

def to_pyiga_inputs(problem, desc):
    """(kvs argument, args dict, boundary argument) for pyiga.assemble.assemble."""
    from pyiga import bspline, geometry
    mk = lambda kvl: tuple(bspline.KnotVector(np.array(kn, dtype=float), p) for kn, p in kvl)
    kvs = [mk(k) for k in problem['kvs']]
    kvarg = kvs[0] if len(kvs) == 1 else tuple(kvs)
    gs = problem['geo']; gk = mk(gs['kvs']); C = np.array(gs['coeffs'], dtype=float)
    geo = geometry.NurbsFunc(gk, C.copy(), np.array(gs['weights'], dtype=float)) if 'weights' in gs else bspline.BSplineFunc(gk, C.copy())
    args = {'geo': geo}
    for name, f in problem['fields'].items():
        shp = tuple(desc['fields'][name]['shape'])
        if f['kind'] == 'bspline': args[name] = bspline.BSplineFunc(mk(f['kvs']), np.array(f['coeffs'], dtype=float))
        else: args[name] = phys_callable(f, shp)
    for name, v in problem['params'].items(): args[name] = np.array(v, dtype=float) if np.ndim(v) else float(v)
    bd = tuple(problem['boundary']) if problem['boundary'] else None
    return kvarg, args, bd

# ---- reference ------------------------------------------------------------------------------------------------
def gauss_grid(kvl, nqp, boundary):
    xg, wg = leggauss(nqp)
    grids, weights = [], []
    for ax, (kn, p) in enumerate(kvl):
        if boundary is not None and boundary[0] == ax:
            grids.append(np.array([kn[0] if boundary[1] == 0 else kn[-1]], dtype=float)); weights.append(np.ones(1)); continue
        br = sorted(set(kn)); xs, ws = [], []
        for a, b in zip(br[:-1], br[1:]):
            xs.append((a + b) / 2 + (b - a) / 2 * xg); ws.append((b - a) / 2 * wg)
        grids.append(np.concatenate(xs)); weights.append(np.concatenate(ws))
    return grids, weights

def _jet_of_spline(kvl, coeffs, grids):
    """Jet (order 2) of a scalar tensor-product spline on the grid, flattened in C order; xi_k <-> axis d-1-k."""
    from refmodels import nurbs
    d = len(kvl)
    V = nurbs.bsp_values(kvl, coeffs, grids, upto=2)
    z = tuple([0] * d)
    v = V[z].reshape(-1); P = v.shape[0]
    g = np.zeros((P, d)); H = np.zeros((P, d, d))
    for k in range(d):
        o = [0] * d; o[d - 1 - k] = 1; g[:, k] = V[tuple(o)].reshape(-1)
        for l in range(d):
            o2 = [0] * d; o2[d - 1 - k] += 1; o2[d - 1 - l] += 1; H[:, k, l] = V[tuple(o2)].reshape(-1)
    return Jet(v, g, H, d)

def _unit_jets(d, P, second):
    """List of (alpha as per-xi orders tuple, Jet)."""
    out = []
    z = np.zeros(P); o = np.ones(P)
    def mk(v, gk=None, hk=None):
        g = np.zeros((P, d)); H = np.zeros((P, d, d))
        if gk is not None: g[:, gk] = 1.0
        if hk is not None: H[:, hk[0], hk[1]] = 1.0; H[:, hk[1], hk[0]] = 1.0
        return Jet(o if v else z, g, H, d)
    out.append((tuple([0] * d), mk(True)))
    for k in range(d):
        a = [0] * d; a[k] = 1; out.append((tuple(a), mk(False, gk=k)))
    if second:
        for k in range(d):
            for l in range(k, d):
                a = [0] * d; a[k] += 1; a[l] += 1; out.append((tuple(a), mk(False, hk=(k, l))))
    return out

def _uses_second(ast):
    """True if some path of the AST applies two derivative operators (only then second-order unit jets are needed)."""
    def depth(a):
        if not isinstance(a, list) or not a: return 0
        own = 0
        if isinstance(a[0], str): own = 2 if a[0] == 'hess' else (1 if a[0] in ('Dx', 'grad', 'div', 'curl') else 0)
        return own + max([depth(c) for c in a if isinstance(c, list)] + [0])
    return depth(ast) >= 2

def _zero_jet(d, P):
    return Jet(np.zeros(P), np.zeros((P, d)), np.zeros((P, d, d)), d)

def reference(desc, problem):
    """Dense reference matrix (arity 2: (cv*Nv, cu*Nu)) or vector (arity 1: (cu*Nu,)), its absolute-sum companion, the
    joint-support mask and some metadata."""
    d = desc['dim']; g = desc['geo_dim']; arity = desc['arity']
    kv_u = problem['kvs'][desc['spaces'][0] if len(problem['kvs']) > 1 else 0]
    kv_v = problem['kvs'][desc['spaces'][1] if (arity == 2 and len(problem['kvs']) > 1) else 0]
    bd = tuple(problem['boundary']) if problem['boundary'] else None
    nqp = max(p for kvl in problem['kvs'] for kn, p in kvl) + 1
    grids, weights = gauss_grid(problem['kvs'][0], nqp, bd)
    N = tuple(len(x) for x in grids); P = int(np.prod(N))
    W = np.ones(N)
    for ax in range(d):
        shp = [1] * d; shp[ax] = N[ax]; W = W * weights[ax].reshape(shp)
    gw = W.reshape(-1)
    # geometry jets
    gs = problem['geo']; C = np.array(gs['coeffs'], dtype=float)
    if 'weights' in gs:
        Wt = np.array(gs['weights'], dtype=float); wj = _jet_of_spline(gs['kvs'], Wt, grids)
        X = [J.div(_jet_of_spline(gs['kvs'], C[..., i] * Wt, grids), wj) for i in range(g)]
    else:
        X = [_jet_of_spline(gs['kvs'], C[..., i], grids) for i in range(g)]
    # input fields
    fields = {}
    for name, f in problem['fields'].items():
        shp = tuple(desc['fields'][name]['shape'])
        if f['kind'] == 'bspline':
            Cf = np.array(f['coeffs'], dtype=float)
            get = lambda I: _jet_of_spline(f['kvs'], Cf[(Ellipsis,) + I], grids)
        else:
            vals = phys_callable(f, shp)(*[x.v for x in X])
            get = lambda I, vals=vals: Jet(vals[(Ellipsis,) + I], None, None, d)
        if len(shp) == 0: fields[name] = get(())
        elif len(shp) == 1: fields[name] = [get((a,)) for a in range(shp[0])]
        else: fields[name] = [[get((a, b)) for b in range(shp[1])] for a in range(shp[0])]
    params = {k: np.array(v, dtype=float) for k, v in problem['params'].items()}
    # basis tables: B[axis][order] of shape (ndofs_axis, N_axis); boundary axis restricted to the first/last function
    def tables(kvl):
        T = []
        for ax, (kn, p) in enumerate(kvl):
            t = [np.asarray(bsp.collocation_dense(kn, p, list(grids[ax]), k), dtype=float).T for k in range(3)]
            if bd is not None and bd[0] == ax:
                t = [x[0:1, :] if bd[1] == 0 else x[-1:, :] for x in t]
            T.append(t)
        return T
    Tu = tables(kv_u); Tv = tables(kv_v) if arity == 2 else None
    second = any(_uses_second(e) for e in desc['exprs'])
    units = _unit_jets(d, P, second)
    cu = desc['components'][0]; cv = desc['components'][1] if arity == 2 else None
    nu = cu or 1; nv = (cv or 1) if arity == 2 else 1
    zero = _zero_jet(d, P)
    def bfval(nc, active, jet):
        if nc is None or nc == 1: return jet
        return [jet if c == active else zero for c in range(nc)]
    def integrand(bf):
        env = sem.Env(d, g, X, gw, bf, fields=fields, params=params, boundary=bd)
        tot = None
        for e in desc['exprs']:
            v = sem.evaluate(e, env)
            if not isinstance(v, Jet): raise sem.Unsupported('form expression is not scalar')
            tot = v.v if tot is None else tot + v.v
        return np.broadcast_to(tot, (P,)).reshape(N)
    rng = np.random.default_rng(12345)
    randjet = Jet(rng.uniform(0.5, 1.5, P), rng.uniform(0.5, 1.5, (P, d)), (lambda H: (H + np.swapaxes(H, -1, -2)) / 2)(rng.uniform(0.5, 1.5, (P, d, d))), d)
    Nu = tuple(t[0].shape[0] for t in Tu); Nv = tuple(t[0].shape[0] for t in Tv) if arity == 2 else None
    letters_n = 'abc'[:d]; lu = 'ijk'[:d]; lv = 'lmn'[:d]
    def contract(K, alpha, beta):
        ops = [K]; subs = [letters_n]
        for k in range(d):
            ax = d - 1 - k
            ops.append(Tu[ax][alpha[k]]); subs.append(lu[ax] + letters_n[ax])
        if beta is not None:
            for k in range(d):
                ax = d - 1 - k
                ops.append(Tv[ax][beta[k]]); subs.append(lv[ax] + letters_n[ax])
            out = lv + lu
        else: out = lu
        return np.einsum(','.join(subs) + '->' + out, *ops, optimize='greedy')
    def contract_abs(K, alpha, beta):
        ops = [np.abs(K)]; subs = [letters_n]
        for k in range(d):
            ax = d - 1 - k
            ops.append(np.abs(Tu[ax][alpha[k]])); subs.append(lu[ax] + letters_n[ax])
        if beta is not None:
            for k in range(d):
                ax = d - 1 - k
                ops.append(np.abs(Tv[ax][beta[k]])); subs.append(lv[ax] + letters_n[ax])
            out = lv + lu
        else: out = lu
        return np.einsum(','.join(subs) + '->' + out, *ops, optimize='greedy')
    nNu = int(np.prod(Nu)); nNv = int(np.prod(Nv)) if arity == 2 else None
    nkernels = 0
    if arity == 1:
        A = np.zeros((nu, nNu)); Aabs = np.zeros((nu, nNu))
        for j in range(nu):
            for alpha, uj in units:
                K = integrand({'u': bfval(cu, j, uj)})
                if not np.any(K): continue
                nkernels += 1
                A[j] += contract(K, alpha, None).reshape(-1); Aabs[j] += contract_abs(K, alpha, None).reshape(-1)
        A = A.reshape(-1); Aabs = Aabs.reshape(-1)
        mask = np.ones_like(A, dtype=bool)
    else:
        A = np.zeros((nv, nNv, nu, nNu)); Aabs = np.zeros_like(A)
        for i in range(nv):
            for j in range(nu):
                # which unit jets matter (bilinearity): probe against a generic partner
                au = [(al, uj) for al, uj in units if np.any(integrand({'u': bfval(cu, j, uj), 'v': bfval(cv, i, randjet)}))]
                av = [(be, vj) for be, vj in units if np.any(integrand({'u': bfval(cu, j, randjet), 'v': bfval(cv, i, vj)}))]
                for alpha, uj in au:
                    for beta, vj in av:
                        K = integrand({'u': bfval(cu, j, uj), 'v': bfval(cv, i, vj)})
                        if not np.any(K): continue
                        nkernels += 1
                        A[i, :, j, :] += contract(K, alpha, beta).reshape(nNv, nNu); Aabs[i, :, j, :] += contract_abs(K, alpha, beta).reshape(nNv, nNu)
        A = A.reshape(nv * nNv, nu * nNu); Aabs = Aabs.reshape(nv * nNv, nu * nNu)
        # joint support: open supports must overlap in every direction (the boundary axis has a single function on each side)
        m = np.ones((1, 1), dtype=bool)
        for ax in range(d):
            (ku, pu), (kv_, pv) = kv_u[ax], kv_v[ax]
            if bd is not None and bd[0] == ax:
                ma = np.ones((1, 1), dtype=bool)
            else:
                su = [(ku[a], ku[a + pu + 1]) for a in range(len(ku) - pu - 1)]; sv = [(kv_[a], kv_[a + pv + 1]) for a in range(len(kv_) - pv - 1)]
                ma = np.array([[min(b1, b2) > max(a1, a2) for (a2, b2) in su] for (a1, b1) in sv])
            m = np.kron(m, ma)
        mask = np.kron(np.ones((nv, nu), dtype=bool), m)
    detJ = None
    if g == d:
        Jm = np.stack([np.stack([X[i].g[:, k] for k in range(d)], axis=-1) for i in range(g)], axis=-2)
        detJ = np.linalg.det(Jm)
    return {'A': A, 'Aabs': Aabs, 'mask': mask, 'nqp': nqp, 'nodes': P, 'kernels': nkernels, 'min_det': None if detJ is None else float(np.min(detJ)),
            'second': second, 'shape_u': Nu, 'shape_v': Nv, 'nu': nu, 'nv': nv}

def geometry_ok(desc, problem):
    """The reference evaluator's view of the geometry: det J >= 0.2 (volume) resp. |normal| >= 0.2 (surfaces) on the Gauss grid."""
    d = desc['dim']; g = desc['geo_dim']
    nqp = max(p for kvl in problem['kvs'] for kn, p in kvl) + 1
    grids, _ = gauss_grid(problem['kvs'][0], nqp, None)
    # include the boundary faces
    grids = [np.concatenate([[kvl[0][0]], x, [kvl[0][-1]]]) for x, kvl in zip(grids, problem['kvs'][0])]
    gs = problem['geo']; C = np.array(gs['coeffs'], dtype=float)
    if 'weights' in gs:
        Wt = np.array(gs['weights'], dtype=float); wj = _jet_of_spline(gs['kvs'], Wt, grids)
        X = [J.div(_jet_of_spline(gs['kvs'], C[..., i] * Wt, grids), wj) for i in range(g)]
    else:
        X = [_jet_of_spline(gs['kvs'], C[..., i], grids) for i in range(g)]
    Jm = np.stack([np.stack([X[i].g[:, k] for k in range(d)], axis=-1) for i in range(g)], axis=-2)       # (P, g, d)
    if g == d: return float(np.min(np.linalg.det(Jm))) >= 0.2
    G = np.einsum('pik,pil->pkl', Jm, Jm)
    return float(np.min(np.linalg.det(G))) >= 0.04
