"""Typed random generator of variational forms over the documented grammar (docs/source/guide/vforms.rst).

Forms are linear in each basis function by construction: every summand is
   coefficient(x, fields, params, constants)  *  L_u(u) [* L_v(v)]  *  measure
where L is a linear (differential) operator expression.  Two sub-grammars:
  G0: constructs shown in the guide (Laplace, mass, convection, div-div, vector Laplace, Stokes
      coupling, surface functional with normal, parameters, coefficient fields with grad)
  G1: everything else the grammar allows.
Descriptors are JSON-able (see forms.build).
"""
import copy
import numpy as np

FUNCS = ['abs', 'sqrt', 'exp', 'log', 'sin', 'cos', 'tan']

def C(c): return ['const', float(c)]
def mul(*a):
    r = a[0]
    for b in a[1:]: r = ['*', r, b]
    return r
def add(*a):
    r = a[0]
    for b in a[1:]: r = ['+', r, b]
    return r

class Ctx:
    def __init__(self, rng, dim, geo_dim, boundary, allow_phys):
        self.rng, self.dim, self.geo_dim, self.boundary, self.allow_phys = rng, dim, geo_dim, boundary, allow_phys
        self.fields = {}; self.params = {}
        self.pool = []          # scalar coefficient subtrees generated so far (for twins: near-duplicates that common-subexpression detection must keep apart)
    def new_field(self, shape, physical, updatable=False):
        name = 'f%d' % len(self.fields)
        self.fields[name] = {'shape': list(shape), 'physical': bool(physical), 'updatable': bool(updatable)}
        return name
    def new_param(self, shape):
        name = 'p%d' % len(self.params)
        self.params[name] = list(shape)
        return name

# literals close to, but different from, the values the constant folder treats specially (0, 1, -1), next to the special values themselves
def near_special(r):
    k = float(r.integers(2, 10)); sgn = float(r.choice([-1.0, 1.0]))
    return [0.0, 1.0, -1.0, 2.0, 0.5,
            sgn * k * 1e-9, sgn * k * 1e-7, sgn * k * 1e-12, 1.0 + sgn * k * 1e-6, -1.0 + sgn * k * 1e-6, 1.0 + sgn * k * 1e-8, -1.0 - sgn * k * 1e-9,
            1.0 + sgn * k * 1e-12, sgn * k * 1e-17, sgn * k * 1e-19, sgn * k * 1e-30][int(r.integers(0, 16))]

def scalar_leaf(ctx):
    r = ctx.rng; z = r.random()
    if z < 0.07: return C(near_special(r))
    if z < 0.25: return C(round(float(r.uniform(-2, 2)), 3))
    if z < 0.5: return ['x', int(r.integers(0, ctx.geo_dim))]
    if z < 0.65:
        if r.random() < 0.5 or not ctx.params:
            shp = [(), (ctx.dim,), (ctx.dim, ctx.dim)][int(r.integers(0, 3))]
            name = ctx.new_param(shp)
        else:
            name = list(ctx.params)[int(r.integers(0, len(ctx.params)))]; shp = tuple(ctx.params[name])
        e = ['param', name]
        if len(shp) == 1: e = ['idx', e, int(r.integers(0, shp[0]))]
        elif len(shp) == 2: e = ['idx', e, ['m', int(r.integers(0, shp[0])), int(r.integers(0, shp[1]))]]
        return e
    if z < 0.9:
        physical = bool(r.random() < 0.4)
        shp = [(), (), (ctx.dim,), (ctx.dim, ctx.dim)][int(r.integers(0, 4))]
        reuse = [n for n, f in ctx.fields.items() if len(f['shape']) <= 1] if r.random() < 0.3 else []
        if reuse:
            # the same input field again (possibly at another derivative order)
            name = reuse[int(r.integers(0, len(reuse)))]; shp = tuple(ctx.fields[name]['shape']); physical = ctx.fields[name]['physical']
        else:
            name = ctx.new_field(shp, physical, updatable=bool(r.random() < 0.3))
        e = ['field', name]
        if len(shp) == 1: e = ['idx', e, int(r.integers(0, shp[0]))]
        elif len(shp) == 2: e = ['idx', e, ['m', int(r.integers(0, shp[0])), int(r.integers(0, shp[1]))]]
        # derivative of a parametric field (value jets available); physical derivative only where a square Jacobian exists
        if not physical and r.random() < 0.35 and len(shp) <= 1:
            par = bool(r.random() < 0.5) or not ctx.allow_phys
            e = ['Dx', e, int(r.integers(0, ctx.dim)), par]
        return e
    return ['gw'] if r.random() < 0.2 else C(1.0)

def _size(ast):
    return 1 + sum(_size(c) for c in ast if isinstance(c, list)) if isinstance(ast, list) else 0

def twin(S, r, dim, geo_dim):
    """S itself or a tree differing from S in one place: operands of one binary node exchanged, one literal nudged, one index moved."""
    z = r.random()
    if z < 0.25: return copy.deepcopy(S)
    nodes = [(p, n) for p, n in _walk(S) if isinstance(n, list) and n and isinstance(n[0], str)]
    r.shuffle(nodes)
    for p, n in nodes:
        op = n[0]; new = None
        if z < 0.7:
            if op in ('-', '+', '*') and n[1] != n[2]: new = [op, n[2], n[1]]
            elif op == '/' and isinstance(n[1], list) and n[1][0] == '+' and n[1][1] == C(1.5): new = ['/', n[2], n[1]]        # both operands bounded away from zero
            elif op in ('inner', 'cross') and n[1] != n[2]: new = [op, n[2], n[1]]
        elif z < 0.85:
            if op == 'const': new = C(n[1] * (1.0 + 1e-6) if n[1] else 1e-6)        # nudged, never negated: the constants also guard the domains of sqrt/log and the denominators
            elif op == 'pow': new = ['pow', n[1], n[2] + 1]
        else:
            if op == 'x' and geo_dim > 1: new = ['x', (n[1] + 1) % geo_dim]
            elif op == 'Dx' and dim > 1: new = ['Dx', n[1], (n[2] + 1) % dim, n[3]]
            elif op == 'fn' and n[1] in ('sin', 'cos'): new = ['fn', 'cos' if n[1] == 'sin' else 'sin', n[2]]
            elif op == 'neg': new = n[1]
        if new is not None: return _replace(S, p, new)
    return copy.deepcopy(S)

def scalar_coef(ctx, depth):
    """Smooth, bounded scalar coefficient expression without basis functions."""
    r = ctx.rng
    if depth > 0 and ctx.pool and r.random() < 0.15:
        return twin(ctx.pool[int(r.integers(0, len(ctx.pool)))], r, ctx.dim, ctx.geo_dim)
    e = _scalar_coef(ctx, depth)
    if 3 <= _size(e) <= 40: ctx.pool.append(e)
    return e

def _let_body(ctx, depth):
    """Smooth rational expression in the coordinates, parametric scalar fields, parameters and constants (operators for which the
    form compiler has differentiation rules): the body of a variable defined by VForm.let()."""
    r = ctx.rng
    if depth <= 0 or r.random() < 0.2:
        z = r.random()
        if z < 0.4: return ['x', int(r.integers(0, ctx.geo_dim))]
        if z < 0.6: return C(round(float(r.uniform(-2, 2)), 3))
        if z < 0.85: return ['field', ctx.new_field((), False)]
        return ['param', ctx.new_param(())]
    z = r.random(); a = _let_body(ctx, depth - 1); b = _let_body(ctx, depth - 1)
    if z < 0.35: return ['*', a, b]
    if z < 0.6: return ['+', a, b]
    if z < 0.8: return ['-', a, b]
    return ['/', a, ['+', C(1.5), ['*', b, b]]]

def let_coef(ctx):
    """A named variable (VForm.let) used as a coefficient: by value, or differentiated in parametric or physical coordinates."""
    r = ctx.rng
    L = ['let', 'w', _let_body(ctx, int(r.integers(1, 3)))]
    z = r.random()
    par = lambda: bool(r.random() < 0.6) or not ctx.allow_phys
    if z < 0.2: return L
    if z < 0.8: return ['Dx', L, int(r.integers(0, ctx.dim)), par()]
    return ['idx', ['grad', L, par()], int(r.integers(0, ctx.dim))]

def _scalar_coef(ctx, depth):
    r = ctx.rng
    if depth > 0 and r.random() < 0.06: return let_coef(ctx)
    if depth <= 0 or r.random() < 0.3: return scalar_leaf(ctx)
    z = r.random()
    a = scalar_coef(ctx, depth - 1)
    if z < 0.04: return ['/', ['+', C(1.5), ['pow', a, 2]], ['+', C(1.5), ['pow', scalar_coef(ctx, depth - 2), 2]]]
    if z < 0.2: return ['+', a, scalar_coef(ctx, depth - 1)]
    if z < 0.3: return ['-', a, scalar_coef(ctx, depth - 1)]
    if z < 0.45: return ['*', a, scalar_coef(ctx, depth - 1)]
    if z < 0.55: return ['/', a, ['+', C(1.5), ['pow', scalar_coef(ctx, depth - 2), 2]]]
    if z < 0.62: return ['pow', a, int(r.integers(2, 4))]
    if z < 0.66: return ['neg', a]
    if z < 0.9:
        fn = FUNCS[int(r.integers(0, len(FUNCS)))]
        if fn == 'sqrt': return ['fn', 'sqrt', ['+', C(1.0), ['pow', a, 2]]]
        if fn == 'log': return ['fn', 'log', ['+', C(2.0), ['pow', a, 2]]]
        if fn == 'exp': return ['fn', 'exp', ['*', C(0.3), ['fn', 'sin', a]]]
        if fn == 'tan': return ['fn', 'tan', ['*', C(0.5), ['fn', 'sin', a]]]
        return ['fn', fn, a]
    # scalar from a small matrix/vector construction
    k = int(r.integers(2, 4))
    z2 = r.random()
    if z2 < 0.3: return ['det', mat_coef(ctx, k, k, depth - 2, well=True)]
    if z2 < 0.5: return ['tr', mat_coef(ctx, k, k, depth - 2)]
    if z2 < 0.75: return ['inner', vec_coef(ctx, k, depth - 2), vec_coef(ctx, k, depth - 2)]
    return ['idx', ['inv', mat_coef(ctx, k, k, depth - 2, well=True)], ['m', int(r.integers(0, k)), int(r.integers(0, k))]]

def vec_coef(ctx, n, depth):
    r = ctx.rng; z = r.random()
    if z < 0.15 and n == ctx.geo_dim: return ['xvec']
    if z < 0.3:
        return ['param', ctx.new_param((n,))]
    if z < 0.45:
        return ['field', ctx.new_field((n,), bool(r.random() < 0.4))]
    if z < 0.55 and n == 3: return ['cross', vec_coef(ctx, 3, depth - 1), vec_coef(ctx, 3, depth - 1)]
    if z < 0.65: return ['dot', mat_coef(ctx, n, n, depth - 1), vec_coef(ctx, n, depth - 1)]
    if z < 0.72: return ['*', scalar_coef(ctx, depth - 1), vec_coef(ctx, n, depth - 1)]
    if z < 0.78: return ['+', vec_coef(ctx, n, depth - 1), vec_coef(ctx, n, depth - 1)]
    return ['vec', [scalar_coef(ctx, max(depth - 1, 0)) for _ in range(n)]]

def mat_coef(ctx, m, n, depth, well=False):
    """well=True: identity plus a small perturbation (safely invertible)."""
    r = ctx.rng
    if well:
        rows = [[(['+', C(1.0 if i == j else 0.0), ['*', C(0.15), ['fn', 'sin', scalar_coef(ctx, max(depth - 1, 0))]]]) for j in range(n)] for i in range(m)]
        return ['mat', rows]
    z = r.random()
    if z < 0.2: return ['param', ctx.new_param((m, n))]
    if z < 0.35: return ['field', ctx.new_field((m, n), bool(r.random() < 0.4))]
    if z < 0.45: return ['outer', vec_coef(ctx, m, depth - 1), vec_coef(ctx, n, depth - 1)]
    if z < 0.55 and m == n: return ['T', mat_coef(ctx, n, m, depth - 1)]
    if z < 0.65: return ['dot', mat_coef(ctx, m, m, depth - 1), mat_coef(ctx, m, n, depth - 1)]
    if z < 0.7 and m == ctx.geo_dim and n == ctx.dim: return ['jac']
    return ['mat', [[scalar_coef(ctx, max(depth - 1, 0)) for _ in range(n)] for _ in range(m)]]

def lin_op(ctx, who, ncomp, depth, allow2):
    """Scalar expression linear in basis function `who` ('u'|'v') with ncomp components (None: scalar)."""
    r = ctx.rng; d = ctx.dim; w = [who]
    par = lambda: (bool(r.random() < 0.3) or not ctx.allow_phys)
    if ncomp in (None, 1):      # a single component is a scalar expression (vector assembler with one component)
        z = r.random()
        if z < 0.3: return w
        if z < 0.5: return ['Dx', w, int(r.integers(0, d)), par()]
        if z < 0.65: return ['inner', vec_coef(ctx, d, depth - 1), ['grad', w, par()]]
        if z < 0.75: return ['idx', ['grad', w, par()], int(r.integers(0, d))]
        if allow2 and z < 0.85: return ['tr', ['hess', w, par()]]
        if allow2 and z < 0.93: return ['idx', ['hess', w, par()], ['m', int(r.integers(0, d)), int(r.integers(0, d))]]
        if allow2:
            p_ = par(); return ['Dx', ['Dx', w, int(r.integers(0, d)), p_], int(r.integers(0, d)), p_]
        return w
    k = ncomp; z = r.random()
    if z < 0.2: return ['idx', w, int(r.integers(0, k))]
    if z < 0.4: return ['inner', w, vec_coef(ctx, k, depth - 1)]
    if z < 0.55 and k == d: return ['div', w, par()]
    if z < 0.68: return ['idx', ['grad', w, par()], ['m', int(r.integers(0, k)), int(r.integers(0, d))]]
    if z < 0.8: return ['inner', ['grad', w, par()], mat_coef(ctx, k, d, depth - 1)]
    if z < 0.86 and k == 3 and d == 3 and ctx.allow_phys: return ['idx', ['curl', w], int(r.integers(0, 3))]
    if z < 0.92 and k == 3: return ['idx', ['cross', w, vec_coef(ctx, 3, depth - 1)], int(r.integers(0, 3))]
    return ['inner', ['dot', mat_coef(ctx, k, k, depth - 1), w], vec_coef(ctx, k, depth - 1)]

def bilinear(ctx, cu, cv, depth, allow2):
    r = ctx.rng; d = ctx.dim
    par = lambda: (bool(r.random() < 0.3) or not ctx.allow_phys)
    z = r.random()
    su, sv = cu in (None, 1), cv in (None, 1)
    if su != sv:
        return ['*', lin_op(ctx, 'u', cu, depth, allow2), lin_op(ctx, 'v', cv, depth, allow2)]
    if su and sv:
        if z < 0.25: p_ = par(); return ['inner', ['grad', ['u'], p_], ['grad', ['v'], p_]]
        if z < 0.4: return ['inner', ['dot', mat_coef(ctx, d, d, depth - 1), ['grad', ['u'], par()]], ['grad', ['v'], par()]]
    else:
        if cu == cv and z < 0.2: p_ = par(); return ['inner', ['grad', ['u'], p_], ['grad', ['v'], p_]]
        if cu == cv and z < 0.35: return ['inner', ['u'], ['v']]
        if cu == d and cv == d and z < 0.5: return ['*', ['div', ['u'], par()], ['div', ['v'], par()]]
        if z < 0.6: return ['inner', ['outer', ['v'], ['u']], mat_coef(ctx, cv, cu, depth - 1)]
    return ['*', lin_op(ctx, 'u', cu, depth, allow2), lin_op(ctx, 'v', cv, depth, allow2)]

def random_form(rng, dims=(1, 2, 3), depth=3, g0_only=False):
    dim = int(rng.choice(dims))
    arity = int(rng.choice([1, 2, 2]))
    mz = rng.random()
    if mz < 0.7: measure = 'dx'; geo_dim = dim; boundary = False
    elif mz < 0.85 and dim <= 2: measure = 'ds'; geo_dim = dim + 1; boundary = False
    elif dim >= 2: measure = 'ds'; geo_dim = dim; boundary = True
    else: measure = 'dx'; geo_dim = dim; boundary = False
    surface = (geo_dim != dim)
    ctx = Ctx(rng, dim, geo_dim, boundary, allow_phys=not surface)
    cz = rng.random()
    if cz < 0.55: comps = [None, None]
    else:
        opts = [1, 2, 3] if dim > 1 else [1, 2]
        comps = [int(rng.choice(opts)) if rng.random() < 0.8 else None, int(rng.choice(opts)) if rng.random() < 0.8 else None]
        if comps[0] is None and comps[1] is None: comps[1] = dim
        # mixing vector- and scalar-valued functions: the scalar one is declared with one component (as in the guide)
        comps = [1 if c is None else c for c in comps]
    if arity == 1: comps = [comps[0], None]
    spaces = [0, 1] if (arity == 2 and rng.random() < 0.3) else [0, 0]
    allow2 = (measure == 'dx')
    nterms = int(rng.integers(1, 4))
    exprs = []
    terms = []; cores = []
    for t in range(nterms):
        coef = scalar_coef(ctx, depth - 1) if rng.random() < 0.7 else C(1.0)
        if t > 0 and rng.random() < 0.3: core = copy.deepcopy(cores[int(rng.integers(0, len(cores)))])     # the same core again with another coefficient
        elif arity == 2: core = bilinear(ctx, comps[0], comps[1], depth - 1, allow2)
        else: core = lin_op(ctx, 'u', comps[0], depth - 1, allow2)
        cores.append(core)
        meas = ['dx'] if measure == 'dx' else ['ds']
        if measure == 'dx' and rng.random() < 0.1: meas = ['gw']
        term = mul(coef, core, meas)
        if measure == 'ds' and rng.random() < 0.4:
            term = mul(['inner', vec_coef(ctx, geo_dim, 1), ['normal']], term)
        terms.append(term)
    # either one expression with all summands or several add() calls
    if rng.random() < 0.5 or len(terms) == 1: exprs = [add(*terms)]
    else: exprs = terms
    return {'dim': dim, 'geo_dim': geo_dim, 'boundary': boundary, 'arity': arity, 'components': comps, 'spaces': spaces,
            'params': ctx.params, 'fields': ctx.fields, 'exprs': exprs, 'grammar': 'G1',
            # equal subtrees are built once and the same expression object is used wherever they occur (gu = grad(u) used in several terms and add() calls)
            'share_objects': bool(rng.random() < 0.4)}

# ---- G0: constructs shown in the guide ---------------------------------------------------------------
def g0_forms(dim):
    d = dim
    out = []
    def F(name, arity, comps, exprs, fields=None, params=None, geo_dim=None, boundary=False, spaces=(0, 0)):
        out.append({'name': name, 'dim': d, 'geo_dim': geo_dim or d, 'boundary': boundary, 'arity': arity, 'components': list(comps), 'spaces': list(spaces),
                    'params': params or {}, 'fields': fields or {}, 'exprs': exprs, 'grammar': 'G0'})
    gu, gv = ['grad', ['u'], False], ['grad', ['v'], False]
    F('laplace', 2, (None, None), [mul(['inner', gu, gv], ['dx'])])
    F('mass', 2, (None, None), [mul(['u'], ['v'], ['dx'])])
    F('functional', 1, (None, None), [mul(['field', 'f'], ['u'], ['dx'])], fields={'f': {'shape': [], 'physical': True, 'updatable': False}})
    F('functional_parametric', 1, (None, None), [mul(['field', 'f'], ['u'], ['dx'])], fields={'f': {'shape': [], 'physical': False, 'updatable': True}})
    F('convection_param', 2, (None, None), [mul(['inner', ['param', 'b'], gu], ['v'], ['dx'])], params={'b': [d]})
    F('diffusion_coeff', 2, (None, None), [mul(['field', 'coeff'], ['inner', gu, gv], ['dx'])], fields={'coeff': {'shape': [], 'physical': False, 'updatable': False}})
    F('matrix_coeff', 2, (None, None), [mul(['inner', ['dot', ['field', 'A'], gu], gv], ['dx'])], fields={'A': {'shape': [d, d], 'physical': True, 'updatable': False}})
    F('grad_coeff', 2, (None, None), [mul(['inner', ['grad', ['field', 'c'], False], gu], ['v'], ['dx'])], fields={'c': {'shape': [], 'physical': False, 'updatable': False}})
    F('const_scaled', 2, (None, None), [mul(['inner', ['*', C(3.0), gu], gv], ['dx'])])
    F('const_vector_functional', 1, (None, None), [mul(['inner', ['vec', [C(2.0 + i) for i in range(d)]], ['grad', ['u'], False]], ['dx'])])
    F('parametric_grad', 2, (None, None), [mul(['inner', ['grad', ['u'], True], ['grad', ['v'], True]], ['gw'])])
    if d >= 2:
        F('vector_laplace', 2, (d, d), [mul(['inner', gu, gv], ['dx'])])
        F('divdiv', 2, (d, d), [mul(['div', ['u'], False], ['div', ['v'], False], ['dx'])])
        F('stokes_coupling', 2, (d, 1), [mul(['div', ['u'], False], ['v'], ['dx'])])
        F('boundary_mass', 2, (None, None), [mul(['u'], ['v'], ['ds'])], boundary=True)
        F('boundary_flux', 1, (None, None), [mul(['inner', ['field', 'g'], ['normal']], ['u'], ['ds'])], boundary=True, fields={'g': {'shape': [d], 'physical': True, 'updatable': False}})
    if d <= 2:
        F('surface_functional', 1, (None, None), [mul(['field', 'f'], ['u'], ['ds'])], geo_dim=d + 1, fields={'f': {'shape': [], 'physical': False, 'updatable': False}})
        F('surface_normal_functional', 1, (None, None), [mul(['inner', ['field', 'w'], ['normal']], ['u'], ['ds'])], geo_dim=d + 1, fields={'w': {'shape': [d + 1], 'physical': False, 'updatable': False}})
        F('surface_mass', 2, (None, None), [mul(['u'], ['v'], ['ds'])], geo_dim=d + 1)
    return out

# ---- one-token mutations (for cache-key soundness) ------------------------------------------------------
def _walk(ast, path=()):
    yield path, ast
    if isinstance(ast, list):
        for i, c in enumerate(ast):
            if isinstance(c, list): yield from _walk(c, path + (i,))

def _replace(ast, path, new):
    if not path: return new
    out = copy.deepcopy(ast); cur = out
    for i in path[:-1]: cur = cur[i]
    cur[path[-1]] = new
    return out

def mutations(desc, rng, limit=24):
    """Descriptors differing from `desc` in exactly one token, with the kind of token changed."""
    out = []
    base = copy.deepcopy(desc)
    for ei, e in enumerate(desc['exprs']):
        nodes = [(p, n) for p, n in _walk(e) if isinstance(n, list) and n and isinstance(n[0], str)]
        for p, n in nodes:
            op = n[0]; alt = []
            if op in ('+', '-', '*', '/'):
                shape_safe = {'+': ['-'], '-': ['+'], '*': ['/'] , '/': ['*']}[op]
                alt += [('operator', [o] + n[1:]) for o in shape_safe]
            elif op == 'fn': alt += [('function', ['fn', f, n[2]]) for f in FUNCS if f != n[1]][:3]
            elif op == 'const': alt += [('constant', ['const', n[1] + 1.0]), ('constant', ['const', -n[1] if n[1] else 2.0]), ('constant', ['const', -2.0 if n[1] == -1.0 else (-1.0 if n[1] == -2.0 else n[1] * 2 + 0.5)])]
            elif op == 'Dx': alt += [('derivative', ['Dx', n[1], (n[2] + 1) % desc['dim'], n[3]])] if desc['dim'] > 1 else []; alt += [('physical/parametric', ['Dx', n[1], n[2], not n[3]])]
            elif op in ('grad', 'hess'): alt += [('physical/parametric', [op, n[1], not n[2]])]
            elif op == 'div': alt += [('physical/parametric', ['div', n[1], not n[2]])]
            elif op == 'pow': alt += [('constant', ['pow', n[1], n[2] + 1])]
            elif op == 'x' and desc['geo_dim'] > 1: alt += [('index', ['x', (n[1] + 1) % desc['geo_dim']])]
            elif op == 'idx' and isinstance(n[2], int): alt += [('index', ['idx', n[1], n[2] + 1]), ('index', ['idx', n[1], n[2] - 1])]
            elif op in ('dx', 'ds'): alt += [('measure', ['gw'])]
            elif op in ('u', 'v') and desc['arity'] == 2: alt += [('basis function', ['v' if op == 'u' else 'u'])]
            elif op == 'neg': alt += [('operator', n[1])]
            elif op == 'T': alt += [('operator', n[1])]
            elif op == 'inner' : alt += [('operator', ['inner', n[2], n[1]])]
            for kind, new in alt:
                d2 = copy.deepcopy(base); d2['exprs'][ei] = _replace(e, p, new); out.append((kind, d2))
    # structural tokens
    for name, f in desc.get('fields', {}).items():
        d2 = copy.deepcopy(base); d2['fields'][name]['updatable'] = not f.get('updatable', False); out.append(('updatable flag', d2))
        d2 = copy.deepcopy(base); d2['fields'][name]['physical'] = not f['physical']; out.append(('physical flag', d2))
        d2 = copy.deepcopy(base); d2['fields'] = {('%s_' % k if k == name else k): v for k, v in base['fields'].items()}
        d2['exprs'] = json_replace(d2['exprs'], ['field', name], ['field', name + '_']); out.append(('field name', d2))
        # input field -> parameter of the same shape
        d2 = copy.deepcopy(base); del d2['fields'][name]; d2['params'] = dict(d2.get('params', {})); d2['params'][name] = f['shape']
        d2['exprs'] = json_replace(d2['exprs'], ['field', name], ['param', name]); out.append(('input vs parameter', d2))
    # declared shapes: one more row / column than before (the indices used by the form stay valid)
    for name, shp in desc.get('params', {}).items():
        if len(shp) >= 1:
            for ax in range(len(shp)):
                d2 = copy.deepcopy(base); s2 = list(shp); s2[ax] += 1; d2['params'][name] = s2; out.append(('parameter shape', d2))
    if desc['arity'] == 2:
        d2 = copy.deepcopy(base); d2['spaces'] = [0, 1] if desc['spaces'] == [0, 0] else [0, 0]; out.append(('space index', d2))
    if not desc.get('boundary') and desc['geo_dim'] == desc['dim'] and desc['dim'] >= 2:
        d2 = copy.deepcopy(base); d2['boundary'] = True; out.append(('boundary flag', d2))
    if desc.get('boundary'):
        d2 = copy.deepcopy(base); d2['boundary'] = False; out.append(('boundary flag', d2))
    comps = desc['components']
    for which in range(desc['arity']):
        c = comps[which]
        if c is not None:
            d2 = copy.deepcopy(base); d2['components'][which] = c + 1; out.append(('component count', d2))
    idx = rng.permutation(len(out))[:limit]
    return [out[int(i)] for i in idx]

def json_replace(obj, old, new):
    if obj == old: return copy.deepcopy(new)
    if isinstance(obj, list): return [json_replace(o, old, new) for o in obj]
    return obj
