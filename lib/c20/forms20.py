"""Forms and fixed problems for the compile-cache check (deterministic code generation: verified by the baseline case)."""
def _mul(*a):
    r = a[0]
    for b in a[1:]: r = ['*', r, b]
    return r
def _F(dim, exprs, comps=(None, None)):
    return {'dim': dim, 'geo_dim': dim, 'boundary': False, 'arity': 2, 'components': list(comps), 'spaces': [0, 0], 'params': {}, 'fields': {}, 'exprs': exprs, 'grammar': 'G0'}
_gu, _gv = ['grad', ['u'], False], ['grad', ['v'], False]
FORMS = [
    _F(2, [_mul(['fn', 'exp', ['x', 0]], ['inner', _gu, _gv], ['dx'])]),
    _F(2, [_mul(['fn', 'sin', ['x', 1]], ['u'], ['v'], ['dx']), _mul(['Dx', ['u'], 0, False], ['v'], ['dx'])]),
    _F(1, [_mul(['fn', 'cos', ['x', 0]], ['inner', _gu, _gv], ['dx'])]),
]
def problem(k):
    import numpy as np
    from forms import refasm
    rng = np.random.default_rng(1000 + k)
    d = FORMS[k]
    while True:
        p = refasm.random_problem(rng, d)
        if refasm.geometry_ok(d, p): return p
