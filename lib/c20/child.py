"""One request for a form in a fresh process: compile (through the on-disk cache), assemble, report."""
import sys, os, json, hashlib, time
def main():
    k = int(sys.argv[1]); out = sys.argv[2]; delay = float(sys.argv[3]) if len(sys.argv) > 3 else 0.0
    if delay: time.sleep(delay)
    import numpy as np
    from forms import build, refasm
    from c20.forms20 import FORMS, problem
    from pyiga import compile as C, assemble
    desc = FORMS[k]
    t0 = time.time()
    asm = C.compile_vform(build.make_vform(desc))
    t1 = time.time()
    pr = problem(k)
    kv, args, bd = refasm.to_pyiga_inputs(pr, desc)
    A = assemble.assemble(asm, kv, args=args).toarray()
    modfile = sys.modules[asm.__module__].__file__
    with open(modfile, 'rb') as f: sha = hashlib.sha256(f.read()).hexdigest()
    res = {'ok': True, 'A': A.tolist(), 'modfile': modfile, 'sha': sha, 'compile_s': t1 - t0, 'pid': os.getpid(), 't_done': time.time()}
    tmp = out + '.tmp'
    with open(tmp, 'w') as f: json.dump(res, f)
    os.replace(tmp, out)
if __name__ == '__main__':
    main()
