"""Exact integration of piecewise polynomials given through exact point evaluation.

Interior equispaced nodes x_k = a + (b-a)(k+1)/(m+2), k = 0..m, with the unique weights that
integrate all polynomials of degree <= m exactly (computed in rational arithmetic).  Only
interior nodes are used, so the polynomial piece of the span itself is evaluated (no
right-continuity issue at the span end)."""
from fractions import Fraction
from functools import lru_cache

@lru_cache(maxsize=None)
def weights01(m):
    """Weights w_k on [0,1] for nodes (k+1)/(m+2): sum_k w_k x_k^r = 1/(r+1), r = 0..m."""
    n = m + 1
    xs = [Fraction(k + 1, m + 2) for k in range(n)]
    A = [[x ** r for x in xs] + [Fraction(1, r + 1)] for r in range(n)]
    for c in range(n):
        piv = next(r for r in range(c, n) if A[r][c] != 0)
        A[c], A[piv] = A[piv], A[c]
        pv = A[c][c]
        A[c] = [v / pv for v in A[c]]
        for r in range(n):
            if r != c and A[r][c] != 0:
                f = A[r][c]
                A[r] = [vr - f * vc for vr, vc in zip(A[r], A[c])]
    return tuple(xs), tuple(A[r][n] for r in range(n))

def integrate_piece(fun, a, b, degree):
    """Exact integral over [a,b] of a polynomial of degree <= `degree` given as a callable on Fractions."""
    xs, ws = weights01(int(degree))
    h = b - a
    return h * sum(w * fun(a + h * x) for x, w in zip(xs, ws))
