"""Independent reference for univariate B-splines: Cox-de Boor recursion by definition,
generic over the number type (fractions.Fraction for exact arithmetic, float otherwise).

Conventions (those the property states): basis functions are right-continuous, and
left-continuous at the right end point of the knot vector (the last non-empty span is closed).
Nothing here shares code with pyiga.
"""
from fractions import Fraction
import bisect, math

def to_frac(seq):
    return [Fraction(float(x)) for x in seq]      # binary floats are rationals: exact

def numdofs(kv, p):
    return len(kv) - p - 1

def find_span(kv, p, x):
    """Index k of the unique non-empty span [kv[k], kv[k+1]) containing x (last span closed)."""
    n = len(kv) - p - 1
    if x < kv[0] or x > kv[-1]:
        raise ValueError('x outside the domain')
    if x >= kv[n]:
        k = n - 1
        while kv[k] == kv[k + 1]:
            k -= 1
        return k
    k = bisect.bisect_right(kv, x) - 1
    return k

def basis_derivs(kv, p, x, nder, with_bound=False):
    """Return (span, D) with D[k][j] = d^k/dx^k N_{span-p+j,p}(x), j = 0..p, k = 0..nder.

    If with_bound, additionally returns B[k][j]: the same recursion with absolute values of all
    terms (the natural condition number Sum|terms| of the evaluation), as floats.
    """
    span = find_span(kv, p, x)
    one = x * 0 + 1
    zero = x * 0
    # ders[k][q] = list over j=0..q of D^k N_{span-q+j,q}(x)
    ders = [[None] * (p + 1) for _ in range(nder + 1)]
    bnd = [[None] * (p + 1) for _ in range(nder + 1)]
    ders[0][0] = [one]
    bnd[0][0] = [1.0]
    for k in range(1, nder + 1):
        ders[k][0] = [zero]
        bnd[k][0] = [0.0]
    for q in range(1, p + 1):
        for k in range(0, nder + 1):
            row, brow = [], []
            for j in range(q + 1):
                i = span - q + j
                val, b = zero, 0.0
                if k == 0:
                    if j >= 1:
                        a = (x - kv[i]) / (kv[i + q] - kv[i])
                        val = val + a * ders[0][q - 1][j - 1]
                        b += abs(float(a)) * bnd[0][q - 1][j - 1]
                    if j <= q - 1:
                        c = (kv[i + q + 1] - x) / (kv[i + q + 1] - kv[i + 1])
                        val = val + c * ders[0][q - 1][j]
                        b += abs(float(c)) * bnd[0][q - 1][j]
                elif k <= q:
                    if j >= 1:
                        t = ders[k - 1][q - 1][j - 1] / (kv[i + q] - kv[i])
                        val = val + q * t
                        b += q * bnd[k - 1][q - 1][j - 1] / abs(float(kv[i + q] - kv[i]))
                    if j <= q - 1:
                        t = ders[k - 1][q - 1][j] / (kv[i + q + 1] - kv[i + 1])
                        val = val - q * t
                        b += q * bnd[k - 1][q - 1][j] / abs(float(kv[i + q + 1] - kv[i + 1]))
                row.append(val)
                brow.append(b)
            ders[k][q] = row
            bnd[k][q] = brow
    D = [ders[k][p] for k in range(nder + 1)]
    if with_bound:
        return span, D, [bnd[k][p] for k in range(nder + 1)]
    return span, D

def single_value(kv, p, i, x):
    """Value of the i-th B-spline at x by definition (0 outside its p+1 active functions)."""
    span, D = basis_derivs(kv, p, x, 0)
    j = i - (span - p)
    if 0 <= j <= p:
        return D[0][j]
    return x * 0

def collocation_dense(kv, p, xs, k=0):
    """Dense (len(xs) x numdofs) matrix of k-th derivatives as floats."""
    import numpy as np
    n = numdofs(kv, p)
    C = np.zeros((len(xs), n))
    for r, x in enumerate(xs):
        span, D = basis_derivs(kv, p, x, k)
        for j in range(p + 1):
            C[r, span - p + j] = float(D[k][j])
    return C

def eval_spline(kv, p, coeffs, x, k=0):
    """k-th derivative of sum_i c_i N_i at x (coeffs may be an ndarray with trailing axes)."""
    span, D = basis_derivs(kv, p, x, k)
    acc = None
    for j in range(p + 1):
        t = coeffs[span - p + j] * float(D[k][j])
        acc = t if acc is None else acc + t
    return acc

def greville(kv, p):
    n = numdofs(kv, p)
    if p == 0:
        return [(kv[i] + kv[i + 1]) / 2 for i in range(n)]
    return [sum(kv[i + 1:i + p + 1]) / p for i in range(n)]

def mesh(kv):
    out = []
    for t in kv:
        if not out or t != out[-1]:
            out.append(t)
    return out

# ---- exact knot insertion (Boehm) --------------------------------------------------
def insert_knot_matrix(kv, p, u):
    """Exact (n+1) x n matrix mapping coefficients on kv to coefficients on kv + {u}; returns (newkv, M)."""
    n = numdofs(kv, p)
    # span k with kv[k] <= u < kv[k+1]
    if u >= kv[n]:
        raise ValueError('cannot insert at or beyond the right end')
    k = bisect.bisect_right(kv, u) - 1
    zero = u * 0; one = zero + 1
    M = [[zero] * n for _ in range(n + 1)]
    for i in range(n + 1):
        if i <= k - p:
            M[i][i] = one
        elif i >= k + 1:
            M[i][i - 1] = one
        else:
            a = (u - kv[i]) / (kv[i + p] - kv[i])
            M[i][i] = a
            M[i][i - 1] = one - a
    newkv = list(kv[:k + 1]) + [u] + list(kv[k + 1:])
    return newkv, M

def matmul(A, B):
    n, m, r = len(A), len(B), len(B[0])
    out = [[A[0][0] * 0] * r for _ in range(n)]
    for i in range(n):
        Ai = A[i]
        for l in range(m):
            a = Ai[l]
            if a != 0:
                Bl = B[l]
                row = out[i]
                for j in range(r):
                    if Bl[j] != 0:
                        row[j] = row[j] + a * Bl[j]
    return out

def refinement_matrix(kv, p, kvfine):
    """Exact matrix mapping coefficients on kv to coefficients on the refinement kvfine
    (kvfine must contain kv as a sub-multiset). Returns list-of-lists (numdofs(kvfine) x numdofs(kv))."""
    cur = list(kv)
    n = numdofs(kv, p)
    zero = kv[0] * 0; one = zero + 1
    M = [[one if i == j else zero for j in range(n)] for i in range(n)]
    # knots to insert: multiset difference
    from collections import Counter
    need = Counter(kvfine); have = Counter(kv)
    ins = []
    for t in sorted(need):
        d = need[t] - have.get(t, 0)
        if d < 0:
            raise ValueError('not a refinement')
        ins += [t] * d
    for u in ins:
        cur, Mi = insert_knot_matrix(cur, p, u)
        M = matmul(Mi, M)
    assert cur == sorted(kvfine)
    return M
