"""Shadow model of a hierarchical spline space, by definition.

The model tracks only the refinement regions Omega_l (sets of level-l cells; Omega_0 = all cells,
Omega_{l+1} = union of the children of every cell ever refined on level l) and derives everything
else from the definitions:
  active cells      : Omega_l minus the cells whose children lie in Omega_{l+1}
  function of level l: in the region iff supp subset Omega_l;
                       deactivated iff additionally supp subset Omega_{l+1}; active otherwise.
Level-l meshes are the dyadic refinements of the level-0 mesh (n0*2^l cells per direction), the
level-l spline spaces have simple interior knots (numdofs = cells + p).  Nothing here calls pyiga.
"""
import itertools

class Shadow:
    def __init__(self, p, n0):
        self.p = tuple(int(x) for x in p); self.n0 = tuple(int(x) for x in n0); self.dim = len(self.p)
        self.omega = [set(itertools.product(*[range(n) for n in self.n0]))]

    def copy(self):
        s = Shadow(self.p, self.n0); s.omega = [set(o) for o in self.omega]; return s

    def ncells(self, l):
        return tuple(n * 2 ** l for n in self.n0)

    def ndofs(self, l):
        return tuple(n * 2 ** l + p for n, p in zip(self.n0, self.p))

    def children(self, c):
        return itertools.product(*[(2 * ci, 2 * ci + 1) for ci in c])

    def refine(self, refined):
        """refined: {level: iterable of cells} actually refined."""
        for l in sorted(refined):
            cells = [tuple(int(v) for v in c) for c in refined[l]]
            if not cells: continue
            while len(self.omega) <= l + 1: self.omega.append(set())
            for c in cells:
                if c not in self.omega[l]:
                    raise ValueError('refined cell %r of level %d is not in the refinement region' % (c, l))
                self.omega[l + 1].update(self.children(c))

    @property
    def numlevels(self):
        return len(self.omega)

    def deactivated_cells(self, l):
        if l + 1 >= len(self.omega): return set()
        return {tuple(ci // 2 for ci in c) for c in self.omega[l + 1]}

    def active_cells(self, l):
        return self.omega[l] - self.deactivated_cells(l)

    def supp_cells(self, l, f):
        """Cells of level l in the support of function f (multi-index) of level l."""
        nc = self.ncells(l)
        return itertools.product(*[range(max(0, fi - p), min(n, fi + 1)) for fi, p, n in zip(f, self.p, nc)])

    def functions(self, l):
        """(active, deactivated) function sets of level l."""
        om = self.omega[l]; de = self.deactivated_cells(l)
        act, deact = set(), set()
        for f in itertools.product(*[range(n) for n in self.ndofs(l)]):
            cells = list(self.supp_cells(l, f))
            if all(c in om for c in cells):
                if all(c in de for c in cells): deact.add(f)
                else: act.add(f)
        return act, deact

    def cell_box(self, l, c):
        nc = self.ncells(l)
        return tuple((ci / n, (ci + 1) / n) for ci, n in zip(c, nc))

    def func_box(self, l, f):
        nc = self.ncells(l)
        return tuple((max(0, fi - p) / n, min(n, fi + 1) / n) for fi, p, n in zip(f, self.p, nc))

    def func_meets_cell(self, lf, f, lc, c):
        """Does function (lf,f) have support overlapping cell (lc,c) with positive measure?  Exact integer arithmetic."""
        L = max(lf, lc)
        for d in range(self.dim):
            n = self.n0[d]
            flo = max(0, f[d] - self.p[d]) * 2 ** (L - lf); fhi = min(n * 2 ** lf, f[d] + 1) * 2 ** (L - lf)
            clo = c[d] * 2 ** (L - lc); chi = (c[d] + 1) * 2 ** (L - lc)
            if min(fhi, chi) <= max(flo, clo): return False
        return True
