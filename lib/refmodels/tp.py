"""Independent tensor-product spline evaluation built on refmodels.bsp (float mode).

Axis convention: kvs[d] belongs to axis d of the coefficient array (this is pyiga's "zyx" order:
the LAST knot vector is the x direction).  Nothing here calls pyiga.
"""
import numpy as np
from . import bsp

def grid_eval(kvs, coeffs, grids, derivs=None):
    """kvs: list of (knots(list/array), p); grids: list of 1D arrays per axis; derivs: per-axis derivative orders.
    Returns array of shape (len(grids[0]), ..., len(grids[-1])) + trailing shape of coeffs."""
    d = len(kvs)
    if derivs is None: derivs = [0] * d
    out = np.asarray(coeffs, dtype=float)
    for ax, (kv, p) in enumerate(kvs):
        C = bsp.collocation_dense([float(t) for t in kv], p, [float(x) for x in grids[ax]], k=derivs[ax])
        out = np.moveaxis(np.tensordot(C, out, axes=([1], [ax])), 0, ax)
    return out

def grid_jacobian(kvs, coeffs, grids):
    """Jacobian with the x-derivative LAST... i.e. column j is the derivative w.r.t. parameter of axis d-1-j
    (pyiga convention: jac[..., i, j] = d f_i / d xi_j with xi_0 = x = last axis)."""
    d = len(kvs)
    comps = []
    for j in range(d):
        ax = d - 1 - j
        der = [0] * d; der[ax] = 1
        comps.append(grid_eval(kvs, coeffs, grids, der))
    return np.stack(comps, axis=-1)

def point_eval(kvs, coeffs, pt_axis_order, derivs=None):
    """Evaluate at a single point given in axis order (one coordinate per axis)."""
    g = [np.array([float(x)]) for x in pt_axis_order]
    v = grid_eval(kvs, coeffs, g, derivs)
    return v.reshape(v.shape[len(kvs):])

def kvs_of(pyiga_kvs):
    return [(np.asarray(kv.kv, dtype=float).tolist(), int(kv.p)) for kv in pyiga_kvs]
