"""Independent NURBS evaluation: quotient of numerator spline and weight spline, with the
quotient rule written out for first and second derivatives.  Built on refmodels.tp only."""
import numpy as np
from . import tp

def hess_pairs(d):
    """Order of the linearized symmetric Hessian: (xx, xy, xz, yy, yz, zz) with x the LAST parametric axis.
    Returns list of (axis_a, axis_b) in array-axis numbering."""
    out = []
    for i in reversed(range(d)):
        for j in reversed(range(i + 1)):
            out.append((i, j))
    return out

def bsp_values(kvs, coeffs, grids, upto=2):
    """Dictionary of derivative arrays of a B-spline function on a grid: key = tuple of per-axis orders."""
    d = len(kvs); out = {}
    orders = [tuple([0] * d)]
    if upto >= 1:
        for a in range(d):
            o = [0] * d; o[a] = 1; orders.append(tuple(o))
    if upto >= 2:
        for (a, b) in hess_pairs(d):
            o = [0] * d; o[a] += 1; o[b] += 1; orders.append(tuple(o))
    for o in orders:
        out[o] = tp.grid_eval(kvs, coeffs, grids, list(o))
    return out

def bsp_jacobian(kvs, coeffs, grids):
    return tp.grid_jacobian(kvs, coeffs, grids)

def bsp_hessian(kvs, coeffs, grids):
    d = len(kvs)
    comps = []
    for (a, b) in hess_pairs(d):
        o = [0] * d; o[a] += 1; o[b] += 1
        comps.append(tp.grid_eval(kvs, coeffs, grids, o))
    return np.stack(comps, axis=-1)

def nurbs_all(kvs, coeffs_premult, grids, scalar=False):
    """coeffs_premult[..., :-1] = weighted numerator coefficients, [..., -1] = weights.
    Returns (values, jacobian, hessian) with pyiga's conventions."""
    d = len(kvs)
    V = bsp_values(kvs, coeffs_premult, grids, upto=2)
    z = tuple([0] * d)
    N = V[z][..., :-1]; W = V[z][..., -1:]
    val = N / W
    def first(a):
        o = [0] * d; o[a] = 1; return V[tuple(o)]
    jcols = []
    for j in range(d):
        a = d - 1 - j
        D = first(a); Na, Wa = D[..., :-1], D[..., -1:]
        jcols.append((Na * W - N * Wa) / W ** 2)
    jac = np.stack(jcols, axis=-1)
    hcomps = []
    for (a, b) in hess_pairs(d):
        o = [0] * d; o[a] += 1; o[b] += 1
        D2 = V[tuple(o)]; Nab, Wab = D2[..., :-1], D2[..., -1:]
        Da, Db = first(a), first(b)
        Na, Wa = Da[..., :-1], Da[..., -1:]; Nb, Wb = Db[..., :-1], Db[..., -1:]
        h = Nab / W - (Na * Wb + Nb * Wa) / W ** 2 - N * Wab / W ** 2 + 2 * N * Wa * Wb / W ** 3
        hcomps.append(h)
    hess = np.stack(hcomps, axis=-1)
    if scalar:
        val = val[..., 0]; jac = jac[..., 0, :]; hess = hess[..., 0, :]
    return val, jac, hess
