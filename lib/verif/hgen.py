"""Generation of hierarchical spline spaces from refinement-history descriptors.

A descriptor is JSON-able:
  {'dim': d, 'p': [p_1..p_d], 'n0': [n_1..n_d], 'disparity': k or None (inf), 'truncate': bool,
   'bdspecs': None | list of [axis, side], 'history': [ {level: [[cell], ...]}, ... ]  (explicit)  or
   'hseed': int, 'steps': int, 'style': 'random'|'corner'|'isolated'|'multilevel'|'drill'|'interface'  (generated against the live space),
   'container': 'set'|'list'|'tuple'|'mixed'}
"""
import numpy as np
from .gen import rng_for

def make_kvs(desc):
    from pyiga import bspline
    return tuple(bspline.make_knots(int(p), 0.0, 1.0, int(n)) for p, n in zip(desc['p'], desc['n0']))

def _container(kind, cells, rng):
    cells = [tuple(int(v) for v in c) for c in cells]
    if kind == 'mixed':
        kind = ['set', 'list', 'tuple'][int(rng.integers(0, 3))]
    if kind in ('set', 'live'): return set(cells)
    if kind == 'list': return list(cells)
    return tuple(cells)

def random_marks(hs, rng, style='random', max_levels=4, frac=0.3):
    """Choose a non-empty marking {level: cells} among currently active cells."""
    L = hs.numlevels
    act = [sorted(hs.active_cells(l)) for l in range(L)]
    levels = [l for l in range(L) if act[l] and l < max_levels - 1]
    if not levels:
        return None
    marks = {}
    if style == 'corner':
        l = levels[-1]
        c = min(act[l]) if rng.random() < 0.5 else max(act[l])
        marks[l] = [c]
    elif style == 'isolated':
        l = levels[int(rng.integers(0, len(levels)))]
        marks[l] = [act[l][int(rng.integers(0, len(act[l])))]]
    elif style == 'drill':
        # refine one cell (or a small block), then all of its children, then all of theirs: intermediate levels are left with few or no
        # active functions while coarser and finer levels interact directly
        if L == 1:
            c0 = act[0][int(rng.integers(0, len(act[0])))]
            # a single cell, or a block wide enough (up to p+1 cells per direction) that a coarse function is replaced
            pm = max(int(kv.p) for kv in hs.knotvectors(0))
            w = 1 if rng.random() < 0.4 else int(rng.integers(2, pm + 2))
            marks[0] = [c for c in act[0] if all(0 <= a - b < w for a, b in zip(c, c0))] or [c0]
        else:
            l = L - 1
            if l not in levels: return None
            marks[l] = list(act[l])
    elif style == 'interface':
        # refine a slab of the coarse mesh, then on every further step the cells of the finest level next to the *interior* boundary of
        # its refinement region: Omega_{l+1} then shares a piece of its boundary with Omega_l inside the domain, so coarse functions reach
        # the level-l region only through cells that are no longer active on level l
        if L == 1:
            ax = int(rng.integers(0, len(act[0][0]))); n = max(c[ax] for c in act[0]) + 1
            lo = rng.random() < 0.5; k = int(rng.integers(1, n)) if n > 1 else 1
            marks[0] = [c for c in act[0] if (c[ax] < k if lo else c[ax] >= n - k)]
        else:
            l = L - 1
            if l not in levels: return None
            A = set(act[l]); nb = tuple(int(kv.numspans) for kv in hs.knotvectors(l)); w = int(rng.integers(1, 3))
            def near(c):
                for d in range(len(c)):
                    for o in range(-w, w + 1):
                        e = c[:d] + (c[d] + o,) + c[d + 1:]
                        if o and 0 <= e[d] < nb[d] and e not in A: return True
                return False
            marks[l] = [c for c in act[l] if near(c)] or [act[l][0]]
    elif style == 'multilevel':
        for l in levels:
            if rng.random() < 0.7:
                k = max(1, int(len(act[l]) * rng.uniform(0.05, frac)))
                idx = rng.choice(len(act[l]), size=min(k, len(act[l])), replace=False)
                marks[l] = [act[l][int(i)] for i in idx]
        if not marks:
            l = levels[0]; marks[l] = [act[l][0]]
    else:
        l = levels[int(rng.integers(0, len(levels)))]
        # a contiguous block around a random active cell, so that functions actually get replaced
        c0 = act[l][int(rng.integers(0, len(act[l])))]
        w = int(rng.integers(0, 3))
        aset = set(act[l])
        import itertools
        block = [tuple(ci + o for ci, o in zip(c0, off)) for off in itertools.product(range(-w, w + 1), repeat=len(c0))]
        marks[l] = [c for c in block if c in aset] or [c0]
    return marks

QUERIES = ('indices_to_smooth', 'dirichlet_dofs', 'non_dirichlet_dofs', 'represent_fine', 'represent_fine_thb', 'thb_to_hb', 'boundary', 'ravel_global',
           'compute_supports', 'active_indices', 'virtual_prolongators', 'incidence', 'prolongate_to_copy', 'cell_supp')

def poke(hs, rng, p=0.5):
    """What a solve-estimate-mark-refine loop does between refinements: read-only queries on the live object.  Whatever they
    cache must be invalidated by the next refine(); whatever they return must not be changed by later calls.  Returns the names
    of the queries made (exceptions are recorded with a '!' prefix, they are the business of the checks that own the route)."""
    made = []
    if rng.random() > p: return made
    names = [q for q in QUERIES if rng.random() < 0.3] or [QUERIES[int(rng.integers(0, len(QUERIES)))]]
    for q in names:
        try:
            if q == 'indices_to_smooth': hs.indices_to_smooth(['new', 'trunc', 'func_supp', 'cell_supp'][int(rng.integers(0, 4))])
            elif q == 'dirichlet_dofs': hs.dirichlet_dofs()
            elif q == 'non_dirichlet_dofs': hs.non_dirichlet_dofs()
            elif q == 'represent_fine': hs.represent_fine(truncate=False)
            elif q == 'represent_fine_thb': hs.represent_fine(truncate=True)
            elif q == 'thb_to_hb': hs.thb_to_hb()
            elif q == 'boundary':
                if hs.dim >= 2: hs.boundary((int(rng.integers(0, hs.dim)), int(rng.integers(0, 2))))
            elif q == 'ravel_global': hs.ravel_global
            elif q == 'compute_supports': hs.compute_supports([sorted(a)[:2] for a in hs.actfun])
            elif q == 'active_indices': hs.active_indices(); hs.deactivated_indices()
            elif q == 'virtual_prolongators': hs.virtual_hierarchy_prolongators()
            elif q == 'incidence': hs.incidence_matrix()
            elif q == 'prolongate_to_copy': hs.prolongate_to(hs.copy())
            elif q == 'cell_supp': hs.cell_supp_indices(remove_dirichlet=False)
            made.append(q)
        except Exception as ex:
            made.append('!' + q + ':' + type(ex).__name__)
    return made

def build(desc, on_step=None):
    """Build the HSpace of the descriptor by replaying/generating its refinement history.
    Returns (hs, explicit_history) where explicit_history lists the marks actually passed."""
    from pyiga import hierarchical
    kvs = make_kvs(desc)
    disp = desc.get('disparity')
    disp = np.inf if disp in (None, 'inf') else int(disp)
    bd = desc.get('bdspecs')
    bdspecs = None if bd is None else [tuple(b) if not isinstance(b, str) else b for b in bd]
    hs = hierarchical.HSpace(kvs, truncate=bool(desc.get('truncate', False)), disparity=disp, bdspecs=bdspecs)
    hist = []
    prng = rng_for('hgen-poke', desc.get('hseed', 0))
    if desc.get('poke'): poke(hs, prng)
    if on_step: on_step(hs, None)
    if 'history' in desc:
        rng = rng_for('hgen-c', desc.get('hseed', 0))
        for marks in desc['history']:
            m = {int(l): _container(desc.get('container', 'set'), cs, rng) for l, cs in marks.items()}
            if desc.get('mark_truncate'): hs.refine(m, truncate=True)
            else: hs.refine(m)
            hist.append({int(l): [list(c) for c in cs] for l, cs in marks.items()})
            if desc.get('poke'): poke(hs, prng)
            if on_step: on_step(hs, m)
    else:
        rng = rng_for('hgen', desc.get('hseed', 0))
        for s in range(int(desc.get('steps', 2))):
            marks = random_marks(hs, rng, style=desc.get('style', 'random'), max_levels=int(desc.get('max_levels', 4)))
            if not marks: break
            m = {int(l): _container(desc.get('container', 'set'), cs, rng) for l, cs in marks.items()}
            _maybe_live(hs, m, rng, desc.get('container', 'set'))
            hist.append({int(l): [list(c) for c in cs] for l, cs in marks.items()})
            if desc.get('mark_truncate'): hs.refine(m, truncate=True)       # T-admissible marking of [Bracco, Giannelli, Vazquez]
            else: hs.refine(m)
            if desc.get('poke'): poke(hs, prng)
            if on_step: on_step(hs, m)
    return hs, hist

def _maybe_live(hs, m, rng, kind):
    """When all active cells of a level are marked, pass the very set that active_cells() returns (what user code does)."""
    if kind not in ('live', 'mixed'): return
    for l in list(m):
        live = hs.active_cells(l)
        if set(map(tuple, m[l])) == set(map(tuple, live)) and (kind == 'live' or rng.random() < 0.5):
            m[l] = live

def random_desc(rng, dims=(1, 2), pmax=3, n0max=4, styles=('random', 'corner', 'isolated', 'multilevel', 'drill', 'interface'), max_steps=4, max_levels=4,
                bd_choices=('none', 'empty', 'one', 'all')):
    dim = int(rng.choice(dims))
    p = [int(rng.integers(1, pmax + 1)) for _ in range(dim)]
    n0 = [int(rng.integers(2, n0max + 1)) for _ in range(dim)]
    disp = [None, 1, 2][int(rng.integers(0, 3))]
    bk = str(rng.choice(bd_choices))
    if bk == 'none': bd = None
    elif bk == 'empty': bd = []
    elif bk == 'one': bd = [[int(rng.integers(0, dim)), int(rng.integers(0, 2))]]
    else: bd = [[a, s] for a in range(dim) for s in (0, 1)]
    style = str(rng.choice(styles))
    if style == 'interface': n0 = [max(n, 3) + int(rng.integers(0, 2)) for n in n0]     # a slab and its complement both need room for a function
    return {'dim': dim, 'p': p, 'n0': n0, 'disparity': disp, 'truncate': bool(rng.integers(0, 2)), 'bdspecs': bd,
            'hseed': int(rng.integers(0, 2 ** 31)), 'steps': int(rng.integers(1, max_steps + 1)), 'style': style,
            'container': str(rng.choice(['set', 'list', 'tuple', 'mixed', 'live'])), 'max_levels': max_levels,
            'poke': bool(rng.random() < 0.5)}
