"""Generation of hierarchical spline spaces from refinement-history descriptors.

A descriptor is JSON-able:
  {'dim': d, 'p': [p_1..p_d], 'n0': [n_1..n_d], 'disparity': k or None (inf), 'truncate': bool,
   'bdspecs': None | list of [axis, side], 'history': [ {level: [[cell], ...]}, ... ]  (explicit)  or
   'hseed': int, 'steps': int, 'style': 'random'|'corner'|'isolated'|'multilevel'|'drill'  (generated against the live space),
   'container': 'set'|'list'|'tuple'|'mixed'}
"""
import numpy as np
from .gen import rng_for

def make_kvs(desc):
    from pyiga import bspline
    return tuple(bspline.make_knots(int(p), 0.0, 1.0, int(n)) for p, n in zip(desc['p'], desc['n0']))

def _container(kind, cells, rng):
    cells = [tuple(int(v) for v in c) for c in cells]
    if kind == 'mixed':
        kind = ['set', 'list', 'tuple'][int(rng.integers(0, 3))]
    if kind in ('set', 'live'): return set(cells)
    if kind == 'list': return list(cells)
    return tuple(cells)

def random_marks(hs, rng, style='random', max_levels=4, frac=0.3):
    """Choose a non-empty marking {level: cells} among currently active cells."""
    L = hs.numlevels
    act = [sorted(hs.active_cells(l)) for l in range(L)]
    levels = [l for l in range(L) if act[l] and l < max_levels - 1]
    if not levels:
        return None
    marks = {}
    if style == 'corner':
        l = levels[-1]
        c = min(act[l]) if rng.random() < 0.5 else max(act[l])
        marks[l] = [c]
    elif style == 'isolated':
        l = levels[int(rng.integers(0, len(levels)))]
        marks[l] = [act[l][int(rng.integers(0, len(act[l])))]]
    elif style == 'drill':
        # refine one cell (or a small block), then all of its children, then all of theirs: intermediate levels are left with few or no
        # active functions while coarser and finer levels interact directly
        if L == 1:
            c0 = act[0][int(rng.integers(0, len(act[0])))]
            # a single cell, or a block wide enough (up to p+1 cells per direction) that a coarse function is replaced
            pm = max(int(kv.p) for kv in hs.knotvectors(0))
            w = 1 if rng.random() < 0.4 else int(rng.integers(2, pm + 2))
            marks[0] = [c for c in act[0] if all(0 <= a - b < w for a, b in zip(c, c0))] or [c0]
        else:
            l = L - 1
            if l not in levels: return None
            marks[l] = list(act[l])
    elif style == 'multilevel':
        for l in levels:
            if rng.random() < 0.7:
                k = max(1, int(len(act[l]) * rng.uniform(0.05, frac)))
                idx = rng.choice(len(act[l]), size=min(k, len(act[l])), replace=False)
                marks[l] = [act[l][int(i)] for i in idx]
        if not marks:
            l = levels[0]; marks[l] = [act[l][0]]
    else:
        l = levels[int(rng.integers(0, len(levels)))]
        # a contiguous block around a random active cell, so that functions actually get replaced
        c0 = act[l][int(rng.integers(0, len(act[l])))]
        w = int(rng.integers(0, 3))
        aset = set(act[l])
        import itertools
        block = [tuple(ci + o for ci, o in zip(c0, off)) for off in itertools.product(range(-w, w + 1), repeat=len(c0))]
        marks[l] = [c for c in block if c in aset] or [c0]
    return marks

def build(desc, on_step=None):
    """Build the HSpace of the descriptor by replaying/generating its refinement history.
    Returns (hs, explicit_history) where explicit_history lists the marks actually passed."""
    from pyiga import hierarchical
    kvs = make_kvs(desc)
    disp = desc.get('disparity')
    disp = np.inf if disp in (None, 'inf') else int(disp)
    bd = desc.get('bdspecs')
    bdspecs = None if bd is None else [tuple(b) if not isinstance(b, str) else b for b in bd]
    hs = hierarchical.HSpace(kvs, truncate=bool(desc.get('truncate', False)), disparity=disp, bdspecs=bdspecs)
    hist = []
    if on_step: on_step(hs, None)
    if 'history' in desc:
        rng = rng_for('hgen-c', desc.get('hseed', 0))
        for marks in desc['history']:
            m = {int(l): _container(desc.get('container', 'set'), cs, rng) for l, cs in marks.items()}
            if desc.get('mark_truncate'): hs.refine(m, truncate=True)
            else: hs.refine(m)
            hist.append({int(l): [list(c) for c in cs] for l, cs in marks.items()})
            if on_step: on_step(hs, m)
    else:
        rng = rng_for('hgen', desc.get('hseed', 0))
        for s in range(int(desc.get('steps', 2))):
            marks = random_marks(hs, rng, style=desc.get('style', 'random'), max_levels=int(desc.get('max_levels', 4)))
            if not marks: break
            m = {int(l): _container(desc.get('container', 'set'), cs, rng) for l, cs in marks.items()}
            _maybe_live(hs, m, rng, desc.get('container', 'set'))
            hist.append({int(l): [list(c) for c in cs] for l, cs in marks.items()})
            if desc.get('mark_truncate'): hs.refine(m, truncate=True)       # T-admissible marking of [Bracco, Giannelli, Vazquez]
            else: hs.refine(m)
            if on_step: on_step(hs, m)
    return hs, hist

def _maybe_live(hs, m, rng, kind):
    """When all active cells of a level are marked, pass the very set that active_cells() returns (what user code does)."""
    if kind not in ('live', 'mixed'): return
    for l in list(m):
        live = hs.active_cells(l)
        if set(map(tuple, m[l])) == set(map(tuple, live)) and (kind == 'live' or rng.random() < 0.5):
            m[l] = live

def random_desc(rng, dims=(1, 2), pmax=3, n0max=4, styles=('random', 'corner', 'isolated', 'multilevel', 'drill'), max_steps=4, max_levels=4,
                bd_choices=('none', 'empty', 'one', 'all')):
    dim = int(rng.choice(dims))
    p = [int(rng.integers(1, pmax + 1)) for _ in range(dim)]
    n0 = [int(rng.integers(2, n0max + 1)) for _ in range(dim)]
    disp = [None, 1, 2][int(rng.integers(0, 3))]
    bk = str(rng.choice(bd_choices))
    if bk == 'none': bd = None
    elif bk == 'empty': bd = []
    elif bk == 'one': bd = [[int(rng.integers(0, dim)), int(rng.integers(0, 2))]]
    else: bd = [[a, s] for a in range(dim) for s in (0, 1)]
    return {'dim': dim, 'p': p, 'n0': n0, 'disparity': disp, 'truncate': bool(rng.integers(0, 2)), 'bdspecs': bd,
            'hseed': int(rng.integers(0, 2 ** 31)), 'steps': int(rng.integers(1, max_steps + 1)), 'style': str(rng.choice(styles)),
            'container': str(rng.choice(['set', 'list', 'tuple', 'mixed', 'live'])), 'max_levels': max_levels}
