"""Check driver: stage + build from /repo's working tree, run monitors in worker
subprocesses, classify what they observed, write evidence, print the verdict."""
import sys, os, json, argparse, subprocess, time, re, hashlib, shutil, traceback

from . import staging
from .api import merge, jsonable, case_hash

ROOT = staging.VERIF_ROOT
# VERIF_OUT_DIR redirects evidence and replays (used only when trying the checks against a seeded change in a scratch worktree,
# so that the committed evidence always describes /repo itself)
_OUT = os.environ.get('VERIF_OUT_DIR')
EVIDENCE_DIR = os.path.join(_OUT or ROOT, 'evidence')
REPLAY_DIR = os.path.join(_OUT or ROOT, 'replays')
KNOWN = os.path.join(ROOT, 'known_findings.json')

def load_known():
    try:
        with open(KNOWN) as f:
            return json.load(f)
    except FileNotFoundError:
        return {'findings': [], 'fixed': []}

def sig_matches(match, sig):
    for k, v in match.items():
        sv = sig.get(k)
        if isinstance(v, dict):
            if 'min' in v and not (isinstance(sv, (int, float)) and sv >= v['min']): return False
            if 'max' in v and not (isinstance(sv, (int, float)) and sv <= v['max']): return False
            if 'in' in v and sv not in v['in']: return False
        elif sv != v:
            return False
    return True

def classify(prop, violations, known):
    """Split violations into (new, known) using mechanism signatures of *open* findings only."""
    new, old = [], {}
    for v in violations:
        hit = None
        for kf in known.get('findings', []):
            if kf.get('property') == prop and kf.get('status') == 'open' and sig_matches(kf['match'], v['sig']):
                hit = kf
                break
        if hit is None:
            new.append(v)
        else:
            old.setdefault(hit['id'], {'finding': hit, 'n': 0, 'example': v})
            old[hit['id']]['n'] += 1
    return new, old

SAN_PATTERNS = [
    ('asan', re.compile(r'ERROR: AddressSanitizer: ([\w-]+)')),
    ('ubsan', re.compile(r'runtime error: (.*)')),
    ('tsan', re.compile(r'WARNING: ThreadSanitizer: ([\w ]+)')),
]
PYIGA_FRAME = re.compile(r'(pyiga/[\w_]+\.(?:c|cpp|cc|pyx)|/mod[0-9a-f]{16}|__pyx_\w+|fastasm)')

def scan_sanitizer_log(text, variant):
    """Return list of report dicts {tool, kind, func, block} attributed to pyiga frames."""
    reports = []
    lines = text.split('\n')
    i = 0
    while i < len(lines):
        ln = lines[i]
        hit = None
        for tool, pat in SAN_PATTERNS:
            m = pat.search(ln)
            if m:
                hit = (tool, m.group(1).strip())
                break
        if hit:
            block = [ln]
            j = i + 1
            while j < len(lines) and len(block) < 80:
                l2 = lines[j]
                if any(p.search(l2) for _, p in SAN_PATTERNS) and j > i + 1:
                    break
                block.append(l2)
                if l2.startswith('SUMMARY:') or l2.startswith('=================================================================') and len(block) > 3:
                    break
                j += 1
            btxt = '\n'.join(block)
            frames = re.findall(r'#\d+ 0x[0-9a-f]+ in (\S+) ([^\n]*)', btxt)
            pyfr = [(fn, loc) for fn, loc in frames if PYIGA_FRAME.search(fn + ' ' + loc)]
            tool, kind = hit
            if tool == 'ubsan':
                # ubsan lines carry their own location: file:line:col: runtime error
                inpyiga = bool(PYIGA_FRAME.search(ln)) or bool(pyfr)
                func = re.sub(r':\d+:\d+:.*', '', ln.strip())[-80:]
                kind = re.sub(r'\d+', 'N', kind)[:60]
            else:
                inpyiga = bool(pyfr)
                func = pyfr[0][0] if pyfr else ''
            if tool == 'tsan':
                # OpenMP fork/join is invisible to TSan: only trust reports whose stacks are
                # both inside outlined parallel-region bodies, or that involve no libgomp at all
                stacks = re.split(r'\n\s*\n', btxt)
                omp = '_omp_fn' in btxt or 'libgomp' in btxt or 'GOMP_' in btxt
                if omp:
                    acc = [s for s in stacks if re.search(r'(Write|Read|Previous|Atomic)', s.split('\n')[0] if s else '')]
                    both = len(acc) >= 2 and all('_omp_fn' in s for s in acc[:2])
                    if not both:
                        inpyiga = False
            if inpyiga:
                reports.append({'tool': tool, 'kind': kind, 'func': func, 'block': btxt[:3000]})
            i = j
        else:
            i += 1
    return reports

def get_meta(modname, env):
    code = ("import json,importlib,sys\nm=importlib.import_module(%r)\nd={}\n"
            "for k in dir(m):\n"
            "    v=getattr(m,k)\n"
            "    if k.isupper() and isinstance(v,(str,int,float,list,dict,bool,tuple)):\n"
            "        try:\n            json.dumps(v); d[k]=v\n        except Exception: pass\n"
            "print('META'+json.dumps(d))" % modname)
    r = subprocess.run([staging.PY, '-c', code], env=env, capture_output=True, text=True, timeout=600)
    for ln in r.stdout.split('\n'):
        if ln.startswith('META'):
            return json.loads(ln[4:])
    raise RuntimeError('cannot load check module %s: %s' % (modname, r.stderr[-3000:]))

def validate_evidence(path):
    schema = '/root/.vp/EVIDENCE.schema.json'
    vt = shutil.which('python3-vt') or '/opt/veriftools/pyvenv/bin/python'
    if os.path.exists(schema) and os.path.exists(vt):
        code = ("import json,jsonschema,sys; jsonschema.validate(json.load(open(sys.argv[1])), json.load(open(sys.argv[2]))); print('VALID')")
        r = subprocess.run([vt, '-c', code, path, schema], capture_output=True, text=True, timeout=120)
        if 'VALID' in r.stdout:
            return True, 'jsonschema'
        return False, r.stderr[-1500:]
    ev = json.load(open(path))
    for k in ('property_id', 'tier', 'seed', 'level', 'coverage', 'wall_s'):
        if k not in ev:
            return False, 'missing ' + k
    cov = ev['coverage']
    if ev['level'] in ('exploration', 'fault_enumeration'):
        if not (cov.get('evaluations', 0) >= 1 and cov.get('distinct_nontrivial', 0) >= 2 and cov.get('samples') and 'rule' in cov):
            return False, 'coverage keys'
    return True, 'structural'

def main(argv=None):
    ap = argparse.ArgumentParser(prog='check')
    ap.add_argument('prop')
    ap.add_argument('--tier', default=os.environ.get('VERIF_TIER', 'quick'), choices=['quick', 'thorough'])
    ap.add_argument('--seed', type=int, default=int(os.environ.get('VERIF_SEED', '0')))
    ap.add_argument('--replay', default=None)
    ap.add_argument('--workers', type=int, default=0)
    ap.add_argument('--variants', default=None, help='comma list overriding the module plan (debugging)')
    a = ap.parse_args(argv)
    prop = a.prop.upper()
    modname = 'checks.' + prop.lower()
    t_start = time.time()
    tier, seed = a.tier, a.seed

    def inconclusive(reason):
        print('INCONCLUSIVE property=%s reason=%s' % (prop, reason))
        staging.cleanup()
        sys.exit(2)

    known = load_known()
    # ---- stage and build -------------------------------------------------
    try:
        stage = staging.stage_tree()
    except Exception as e:
        inconclusive('staging failed: %r' % (e,))
    scratch = staging.scratch_dir()
    env0 = staging.worker_env(stage)
    pass
    try:
        meta = get_meta(modname, env0)
    except Exception as e:
        inconclusive('check module: %s' % str(e)[-500:].replace('\n', ' | '))
    level = meta.get('LEVEL', 'exploration')
    variants = (a.variants.split(',') if a.variants else meta.get('VARIANTS', {}).get(tier, ['plain']))
    if a.replay:
        with open(a.replay) as f:
            rp = json.load(f)
        variants = [rp.get('variant', 'plain')]
    nworkers = a.workers or int(meta.get('WORKERS', {}).get(tier, 16) if isinstance(meta.get('WORKERS'), dict) else meta.get('WORKERS', 16))
    timeout = float(meta.get('TIMEOUT', {}).get(tier, 3000) if isinstance(meta.get('TIMEOUT'), dict) else 3000)
    builds, dumps, san_reports, worker_fail, crashes = [], [], [], [], []
    for variant in variants:
        try:
            binfo = staging.build(stage, variant, log=os.path.join(scratch, 'build-%s.log' % variant))
        except Exception as e:
            # a tree that does not build cannot be judged by runtime monitoring
            msg = str(e)[-1500:]
            print(msg)
            inconclusive('build failed for variant %s' % variant)
        builds.append(binfo)
        xdg = os.path.join(scratch, 'xdg-' + variant)
        nseed = staging.seed_private_xdg(stage, variant, xdg)
        env = staging.worker_env(stage, variant, xdg=xdg, extra={'VERIF_VARIANT': variant, 'VERIF_TIER': tier,
                                                              'VERIF_SEED': str(seed), 'VERIF_SCRATCH_RUN': scratch})
        nw = 1 if a.replay else (nworkers if variant == 'plain' else int(meta.get('WORKERS_SAN', nworkers)))
        procs = []
        for k in range(nw):
            out = os.path.join(scratch, 'out-%s-%d.json' % (variant, k))
            log = os.path.join(scratch, 'log-%s-%d.txt' % (variant, k))
            cmd = [staging.PY, '-u', '-m', 'verif.worker', modname, '--tier', tier, '--seed', str(seed),
                   '--index', str(k), '--nworkers', str(nw), '--out', out]
            if a.replay:
                cmd += ['--replay', os.path.abspath(a.replay)]
            lf = open(log, 'w')
            p = subprocess.Popen(cmd, env=env, stdout=lf, stderr=subprocess.STDOUT, cwd=scratch)
            procs.append((p, out, log, lf, k))
        deadline = time.time() + timeout
        for p, out, log, lf, k in procs:
            try:
                p.wait(timeout=max(1.0, deadline - time.time()))
            except subprocess.TimeoutExpired:
                p.kill(); p.wait()
                try: curc = open(out + '.cur').read()[:300]
                except Exception: curc = '?'
                worker_fail.append('worker %s/%d: watchdog timeout after %ds (case running: %s)' % (variant, k, timeout, curc))
            lf.close()
            logtxt = open(log, errors='replace').read()
            if os.path.exists(out):
                d = json.load(open(out))
                d['variant'] = variant
                dumps.append(d)
                if d.get('status') != 'ok':
                    worker_fail.append('worker %s/%d: %s' % (variant, k, '; '.join(d.get('errors', []))[-800:]))
            else:
                rc = p.returncode
                if rc in (-11, -7, -6, -8, -4):
                    # the interpreter was killed by SIGSEGV/SIGBUS/SIGABRT/SIGFPE/SIGILL while running the
                    # real code on a generated valid input: an observed crash, attributed to the last case begun
                    import signal as _sg
                    try: cur = json.load(open(out + '.cur'))
                    except Exception: cur = {'worker_index': k, 'nworkers': nw}
                    if isinstance(cur, dict): cur.setdefault('variant', variant)
                    crashes.append({'sig': {'crash': _sg.Signals(-rc).name}, 'case': cur,
                                    'witness': {'log_tail': logtxt[-1500:]}})
                elif rc not in (0, None):
                    worker_fail.append('worker %s/%d died rc=%s: %s' % (variant, k, rc, logtxt[-1200:]))
            if variant != 'plain':
                for r in scan_sanitizer_log(logtxt, variant):
                    r['variant'] = variant
                    san_reports.append(r)
            if os.environ.get('VERIF_VERBOSE'):
                sys.stdout.write(logtxt[-4000:])
        staging.harvest_private_xdg(stage, variant, xdg)

    m = merge(dumps) if dumps else None
    if m is None and crashes:
        m = merge([])
    if m is not None and crashes:
        m['violations'] += crashes
        m['n_violations'] += len(crashes)
    if m is None:
        print('\n'.join(worker_fail)[-3000:])
        inconclusive('no worker produced output')
    # sanitizer reports become violations with a mechanism signature
    seen = set()
    for r in san_reports:
        key = (r['tool'], r['kind'], r['func'])
        m['counters']['sanitizer_reports'] += 1
        if key in seen:
            continue
        seen.add(key)
        m['violations'].append({'sig': {'sanitizer': r['tool'], 'kind': r['kind'], 'func': r['func']},
                                'case': {'variant': r['variant'], 'note': 'sanitizer report; rerun the check with this variant'},
                                'witness': {'report': r['block']}})
        m['n_violations'] += 1

    new, old = classify(prop, m['violations'], known)
    for kid, o in sorted(old.items()):
        print('KNOWN-FINDING: property=%s %s [%s; re-observed %d time(s)]' % (prop, o['finding']['description'], kid, o['n']))

    wall = time.time() - t_start
    # ---- evidence ----------------------------------------------------------
    os.makedirs(EVIDENCE_DIR, exist_ok=True)
    cov = {
        'evaluations': int(m['evaluations']),
        'distinct_nontrivial': len(m['nontrivial']),
        'rule': meta.get('RULE', ''),
        'samples': m['samples'][:6],
        'exhaustive': bool(meta.get('EXHAUSTIVE', {}).get(tier, False)) if isinstance(meta.get('EXHAUSTIVE'), dict) else False,
        'monitor_counters': dict(m['counters']),
        'max_error_to_tolerance_ratio': m['max_ratio'],
        'builds': builds,
        'variants': variants,
        'known_findings_reobserved': {k: o['n'] for k, o in old.items()},
        'new_violations': len(new),
        'worker_failures': worker_fail[:5],
        'harness_errors': m['errors'][:5],
        'info': m['info'],
    }
    ev = {'property_id': prop, 'tier': tier, 'seed': seed, 'level': level, 'coverage': cov,
          'assumptions': meta.get('ASSUMPTIONS', []), 'wall_s': round(wall, 2), 'violations': len(new)}
    evpath = os.path.join(EVIDENCE_DIR, prop + '.json')
    if not a.replay:
        with open(evpath + '.tmp', 'w') as f:
            json.dump(jsonable(ev), f, indent=1, sort_keys=True)
        os.replace(evpath + '.tmp', evpath)

    # ---- verdict -------------------------------------------------------------
    if new:
        os.makedirs(REPLAY_DIR, exist_ok=True)
        shown = set()
        for v in new:
            sk = json.dumps(v['sig'], sort_keys=True)
            if sk in shown:
                continue
            shown.add(sk)
            rp = {'property': prop, 'sig': v['sig'], 'case': v['case'], 'witness': v['witness'], 'tier': tier, 'seed': seed,
                  'variant': v['case'].get('variant', 'plain') if isinstance(v['case'], dict) else 'plain'}
            path = os.path.join(REPLAY_DIR, '%s-%s.json' % (prop, case_hash(rp)))
            with open(path, 'w') as f:
                json.dump(rp, f, indent=1)
            print('  signature=%s witness=%s' % (json.dumps(v['sig'], sort_keys=True), json.dumps(v['witness'])[:600]))
            print('VIOLATION property=%s replay=%s' % (prop, path))
            if len(shown) >= 8:
                break
        print('summary: %d evaluations, %d distinct non-trivial, %d new violation(s) in %d signature(s), %.1fs'
              % (m['evaluations'], len(m['nontrivial']), len(new), len(shown), wall))
        staging.cleanup()
        sys.exit(1)

    if a.replay:
        print('replay: no violation reproduced (%d evaluations)' % m['evaluations'])
        staging.cleanup()
        sys.exit(0)

    # inconclusive conditions: workers failed, harness errors, monitors not reached, too few cases
    reasons = []
    if worker_fail:
        reasons.append('worker failure: ' + worker_fail[0][:300].replace('\n', ' | '))
    if m['errors']:
        reasons.append('harness error: ' + m['errors'][0][-300:].replace('\n', ' | '))
    minnt = meta.get('MIN_NONTRIVIAL', {}).get(tier, 2) if isinstance(meta.get('MIN_NONTRIVIAL'), dict) else 2
    if len(m['nontrivial']) < max(2, minnt):
        reasons.append('only %d distinct non-trivial cases (< %d)' % (len(m['nontrivial']), max(2, minnt)))
    for c in meta.get('REQUIRED_COUNTERS', []):
        if m['counters'].get(c, 0) <= 0:
            reasons.append('monitor counter %s is zero' % c)
    ok, how = validate_evidence(evpath)
    if not ok:
        reasons.append('evidence does not validate: %s' % how[-300:])
    if reasons:
        for r in reasons:
            print('  ' + r)
        inconclusive(reasons[0][:200])
    top = sorted(m['max_ratio'].items(), key=lambda kv: -kv[1])[:3]
    print('HELD property=%s tier=%s seed=%d: %d evaluations, %d distinct non-trivial, variants=%s, worst err/tol %s, %.1fs'
          % (prop, tier, seed, m['evaluations'], len(m['nontrivial']), ','.join(variants),
             ', '.join('%s=%.2g' % kv for kv in top) or 'n/a', wall))
    staging.cleanup()
    sys.exit(0)

if __name__ == '__main__':
    main()
