"""Worker process: runs a slice of a check's cases against the staged pyiga."""
import sys, os, json, argparse, importlib, time, traceback, faulthandler

def main():
    ap = argparse.ArgumentParser()
    ap.add_argument('module')
    ap.add_argument('--tier', default='quick')
    ap.add_argument('--seed', type=int, default=0)
    ap.add_argument('--index', type=int, default=0)
    ap.add_argument('--nworkers', type=int, default=1)
    ap.add_argument('--out', required=True)
    ap.add_argument('--replay', default=None)
    ap.add_argument('--budget', type=float, default=0.0, help='soft time budget in s (0 = none)')
    a = ap.parse_args()
    faulthandler.enable()
    from verif.api import Recorder, exc_sig
    mod = importlib.import_module(a.module)
    rec = Recorder(mod.PROPERTY)
    t0 = time.time()
    status = 'ok'
    curf = open(a.out + '.cur', 'w')    # last case begun, for crash attribution
    try:
        import pyiga
        rec.info['pyiga_file'] = pyiga.__file__
        # one assembler thread per worker unless a check asks otherwise (C08 varies it itself)
        pyiga.set_max_threads(int(os.environ.get('VERIF_PYIGA_THREADS', '1')))
        if hasattr(mod, 'setup'):
            mod.setup(rec, a.tier)
        if a.replay:
            with open(a.replay) as f:
                rp = json.load(f)
            mod.run_case(rec, rp['case'])
        elif hasattr(mod, 'run'):
            mod.run(rec, a.tier, a.seed, a.index, a.nworkers)
        else:
            for i, case in enumerate(mod.cases(a.tier, a.seed)):
                if i % a.nworkers != a.index:
                    continue
                if a.budget and time.time() - t0 > a.budget:
                    rec.count('budget_skipped')
                    continue
                try:
                    curf.seek(0); curf.truncate(); curf.write(json.dumps(case)); curf.flush()
                    mod.run_case(rec, case)
                except Exception as e:
                    # an exception escaping run_case is a harness problem, not a verdict
                    rec.error('case %r: %s' % (case, traceback.format_exc()[-1500:]))
        if hasattr(mod, 'finish'):
            mod.finish(rec, a.tier)
    except Exception:
        status = 'crashed'
        rec.error(traceback.format_exc()[-3000:])
    d = rec.dump()
    d['status'] = status
    d['wall_s'] = time.time() - t0
    tmp = a.out + '.tmp'
    with open(tmp, 'w') as f:
        json.dump(d, f)
    os.replace(tmp, a.out)

if __name__ == '__main__':
    main()
