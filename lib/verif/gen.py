"""Shared case generators (deterministic from a numpy Generator)."""
import numpy as np

def rng_for(*keys):
    """Independent generator from integer/string keys."""
    import hashlib
    h = hashlib.sha256(repr(keys).encode()).digest()
    return np.random.default_rng(int.from_bytes(h[:8], 'little'))

def knot_case(rng, pmin=0, pmax=4, max_spans=6, wild=False, dyadic=False, a=None, b=None):
    """Describe an open knot vector: degree, breakpoints, interior multiplicities."""
    p = int(rng.integers(pmin, pmax + 1))
    nsp = int(rng.integers(1, max_spans + 1))
    if dyadic:
        # breakpoints on a dyadic grid -> float knots are exact rationals with small denominators
        den = 2 ** int(rng.integers(3, 7))
        pts = sorted(rng.choice(np.arange(1, den), size=min(nsp - 1, den - 1), replace=False).tolist()) if nsp > 1 else []
        breaks = [0.0] + [k / den for k in pts] + [1.0]
    else:
        if wild:
            w = 10.0 ** rng.uniform(-8, 0, size=nsp)
        else:
            w = rng.uniform(0.2, 1.0, size=nsp)
        lo = 0.0 if a is None else a
        hi = 1.0 if b is None else b
        cs = np.concatenate(([0.0], np.cumsum(w)))
        breaks = (lo + (hi - lo) * cs / cs[-1]).tolist()
        breaks[-1] = hi
        # remove accidental duplicates
        breaks = sorted(set(breaks))
    nsp = len(breaks) - 1
    mults = [int(rng.integers(1, max(1, p) + 1)) if p >= 1 else 1 for _ in range(nsp - 1)]
    return {'p': p, 'breaks': [float(x) for x in breaks], 'mults': mults}

def knots_from_case(kc):
    p, br, mu = kc['p'], kc['breaks'], kc['mults']
    kv = [br[0]] * (p + 1)
    for t, m in zip(br[1:-1], mu):
        kv += [t] * m
    kv += [br[-1]] * (p + 1)
    return np.array(kv, dtype=float)

def make_kv(kc):
    from pyiga import bspline
    return bspline.KnotVector(knots_from_case(kc), kc['p'])
