"""Run the repository's own test suite (from the staged copy) under the monitors of one check."""
import os, sys, json, subprocess, tempfile

def run_suite(rec, modshort, case, timeout=3000):
    """case: {'kind': 'suite'} runs test/ completely; {'kind': 'suite', 'test': nodeid} runs that test only (replay of
    a violation observed during the suite).  Counters, ratios and violations of the sub-process are merged into rec.
    A test that fails under the monitors is reported as counter only: the suite's own verdicts are not this check's."""
    import pyiga
    stage = os.path.dirname(os.path.dirname(os.path.abspath(pyiga.__file__)))
    scratch = os.environ.get('VERIF_SCRATCH_RUN') or tempfile.gettempdir()
    out = os.path.join(scratch, 'suite-%s-%d.json' % (modshort, os.getpid()))
    env = dict(os.environ, VERIF_SUITE_CHECK=modshort, VERIF_SUITE_OUT=out, MPLBACKEND='Agg')
    target = case.get('test') or 'test/'
    cmd = [sys.executable, '-m', 'pytest', '-q', '-p', 'no:cacheprovider', '-p', 'verif.suiteplugin', '--timeout=900', target]
    try:
        r = subprocess.run(cmd, cwd=stage, env=env, capture_output=True, text=True, timeout=timeout)
    except subprocess.TimeoutExpired:
        rec.count('suite:watchdog'); rec.error('suite under monitors: watchdog after %ds' % timeout); return None
    if not os.path.exists(out):
        rec.error('suite under monitors produced no dump (rc=%s): %s' % (r.returncode, (r.stdout + r.stderr)[-800:])); return None
    with open(out) as f:
        d = json.load(f)
    os.unlink(out)
    for k, v in d['counters'].items():
        rec.count(k, v); rec.count('suite:' + k, v)
    for k, v in d['max_ratio'].items():
        if not (v <= rec.max_ratio.get(k, 0.0)): rec.max_ratio[k] = v
    for v in d['violations']:
        s = dict(v['sig']); s['workload'] = 'suite'
        rec.violation(s, v['case'], v['witness'])
    for e in d.get('errors', []):
        rec.error('suite: ' + e)
    t = d.get('tests', {})
    rec.count('suite:tests_passed', t.get('passed', 0)); rec.count('suite:tests_failed', t.get('failed', 0))
    rec.info['suite_tests'] = t
    return d
