"""pytest plugin: runs the repository's own test suite with one check's monitors attached.

Loaded with `-p verif.suiteplugin` by verif.suite.run_suite().  The check module named in VERIF_SUITE_CHECK
provides suite_setup(rec) (or setup(rec, tier)), which patches its monitors onto the real pyiga classes; the
tests then drive the real code as a further, realistic workload.  Monitors record and return; they never make a
test fail.  At the end the recorder is dumped to VERIF_SUITE_OUT.
"""
import os, sys, json, importlib

_st = {'mod': None, 'rec': None, 'passed': 0, 'failed': 0, 'skipped': 0}

def pytest_configure(config):
    name = os.environ.get('VERIF_SUITE_CHECK')
    if not name:
        return
    from verif.api import Recorder
    mod = importlib.import_module('checks.' + name)
    rec = Recorder(mod.PROPERTY)
    if hasattr(mod, 'suite_setup'):
        mod.suite_setup(rec)
    else:
        mod.setup(rec, 'quick')
    _st['mod'], _st['rec'] = mod, rec

def pytest_runtest_setup(item):
    mod = _st['mod']
    if mod is not None and isinstance(getattr(mod, '_state', None), dict):
        mod._state['case'] = {'kind': 'suite', 'test': item.nodeid}

def pytest_runtest_logreport(report):
    if report.when == 'call':
        if report.passed: _st['passed'] += 1
        elif report.failed: _st['failed'] += 1
    if report.skipped:
        _st['skipped'] += 1

def pytest_sessionfinish(session, exitstatus):
    rec = _st['rec']
    if rec is None:
        return
    d = rec.dump()
    d['tests'] = {'passed': _st['passed'], 'failed': _st['failed'], 'skipped': _st['skipped'], 'exitstatus': int(exitstatus)}
    out = os.environ.get('VERIF_SUITE_OUT')
    if out:
        with open(out + '.tmp', 'w') as f:
            json.dump(d, f)
        os.replace(out + '.tmp', out)
