"""Staging and building pyiga from /repo's current working tree.

Every check copies the working tree to a scratch directory outside /repo and
/verif, builds the extension modules there (or fetches them from a bounded
cache keyed by a hash of *all* compiler inputs), and runs its workload in
subprocesses with PYTHONPATH pointing at the staged copy.
"""
import os, sys, subprocess, hashlib, shutil, fcntl, time, glob, atexit, json

REPO = os.environ.get('VERIF_REPO', '/repo')
VERIF_ROOT = os.path.normpath(os.path.join(os.path.dirname(__file__), '..', '..'))
PY = '/venv/bin/python'
CACHE_ROOT = os.environ.get('VERIF_CACHE', os.path.expanduser('~/.cache/pyiga-verif'))
SCRATCH_BASE = os.environ.get('VERIF_SCRATCH', '/var/tmp')
GUARD = 'PYIGA_VERIF'

COMPILED_SRC_PATTERNS = ('pyiga/*.pyx', 'pyiga/*.pxi', 'pyiga/*.pxd', 'pyiga/*.cc', 'pyiga/*.h', 'setup.py')

VARIANT_FLAGS = {
    'plain': ('', ''),
    'asan': ('-fsanitize=address,undefined -fno-omit-frame-pointer -g',
             '-fsanitize=address,undefined'),
    'tsan': ('-fsanitize=thread -fno-omit-frame-pointer -g', '-fsanitize=thread'),
}

_scratch = None

def scratch_dir():
    global _scratch
    if _scratch is None:
        _scratch = os.path.join(SCRATCH_BASE, 'pyiga-verif.%d' % os.getpid())
        shutil.rmtree(_scratch, ignore_errors=True)
        os.makedirs(_scratch)
        atexit.register(cleanup)
    return _scratch

def cleanup():
    global _scratch
    if _scratch and os.path.isdir(_scratch) and not os.environ.get('VERIF_KEEP_SCRATCH'):
        shutil.rmtree(_scratch, ignore_errors=True)
    _scratch = None

def _tool_versions():
    out = []
    for cmd in (['gcc', '--version'], [PY, '-c', 'import numpy,Cython,sys;print(numpy.__version__,Cython.__version__,sys.version)']):
        try:
            out.append(subprocess.run(cmd, capture_output=True, text=True, timeout=60).stdout.split('\n')[0])
        except Exception as e:
            out.append(repr(e))
    return '|'.join(out)

_toolver = None
def tool_versions():
    global _toolver
    if _toolver is None:
        _toolver = _tool_versions()
    return _toolver

def _hash_files(root, patterns, extra=''):
    h = hashlib.sha256()
    files = []
    for pat in patterns:
        files += glob.glob(os.path.join(root, pat), recursive=True)
    for f in sorted(set(files)):
        if os.path.isfile(f):
            h.update(os.path.relpath(f, root).encode())
            h.update(b'\0')
            with open(f, 'rb') as fh:
                h.update(fh.read())
            h.update(b'\0')
    h.update(extra.encode())
    return h.hexdigest()[:24]

def build_key(stage, variant):
    return _hash_files(stage, COMPILED_SRC_PATTERNS, extra=variant + '|' + '|'.join(VARIANT_FLAGS[variant]) + '|' + tool_versions())

def jit_key(stage, variant):
    # everything a JIT-compiled module can depend on: all of pyiga's sources
    return _hash_files(stage, ('pyiga/**/*.py', 'pyiga/*.pyx', 'pyiga/*.pxi', 'pyiga/*.pxd', 'pyiga/*.cc', 'setup.py'),
                       extra=variant + '|' + tool_versions())

def stage_tree():
    """Copy the working tree of REPO into a fresh scratch stage (without build products)."""
    stage = os.path.join(scratch_dir(), 'stage')
    shutil.rmtree(stage, ignore_errors=True)
    cmd = ['rsync', '-a', '--exclude', '.git', '--exclude', '*.so', '--exclude', '/build', '--exclude', '__pycache__',
           '--exclude', '*_cy.c', '--exclude', '*_cy.cpp', '--exclude', 'pyiga/assemblers.c', '--exclude', '*_cy.html',
           '--exclude', '/docs', '--exclude', '/notebooks', '--exclude', '.xdgcache', '--exclude', '*.egg-info',
           REPO.rstrip('/') + '/', stage + '/']
    subprocess.run(cmd, check=True)
    return stage

class BuildFailed(Exception):
    pass

def _lru_evict(d, keep):
    try:
        entries = [os.path.join(d, e) for e in os.listdir(d) if not e.endswith('.lock')]
    except FileNotFoundError:
        return
    entries = [e for e in entries if os.path.isdir(e)]
    entries.sort(key=lambda e: os.path.getmtime(e), reverse=True)
    for e in entries[keep:]:
        shutil.rmtree(e, ignore_errors=True)

def variant_env(variant):
    """Environment additions needed to *run* code built in this variant."""
    env = {}
    if variant == 'asan':
        lib = subprocess.run(['gcc', '-print-file-name=libasan.so'], capture_output=True, text=True).stdout.strip()
        env['LD_PRELOAD'] = lib
        env['ASAN_OPTIONS'] = 'detect_leaks=0:halt_on_error=0:abort_on_error=0:allocator_may_return_null=1'
        env['UBSAN_OPTIONS'] = 'print_stacktrace=1:halt_on_error=0'
        cflags, ldflags = VARIANT_FLAGS['asan']
        env['CFLAGS'] = cflags; env['CXXFLAGS'] = cflags; env['LDFLAGS'] = ldflags   # JIT modules get instrumented too
    elif variant == 'tsan':
        lib = subprocess.run(['gcc', '-print-file-name=libtsan.so'], capture_output=True, text=True).stdout.strip()
        env['LD_PRELOAD'] = lib
        env['TSAN_OPTIONS'] = 'halt_on_error=0:report_signal_unsafe=0:history_size=4'
        cflags, ldflags = VARIANT_FLAGS['tsan']
        env['CFLAGS'] = cflags; env['CXXFLAGS'] = cflags; env['LDFLAGS'] = ldflags
    return env

def build(stage, variant='plain', log=None):
    """Make sure the staged tree has extension modules built in `variant`.

    Uses a bounded cache outside /repo and /verif keyed by all compiler inputs;
    any edit to a compiled source changes the key and forces a rebuild.
    """
    key = build_key(stage, variant)
    socache = os.path.join(CACHE_ROOT, 'so')
    os.makedirs(socache, exist_ok=True)
    entry = os.path.join(socache, '%s-%s' % (variant, key))
    use_cache = not os.environ.get('VERIF_NO_SOCACHE')
    lockf = open(os.path.join(socache, '%s-%s.lock' % (variant, key)), 'w')
    fcntl.flock(lockf, fcntl.LOCK_EX)
    info = {'variant': variant, 'key': key, 'cached': False, 'build_s': 0.0}
    try:
        if use_cache and os.path.isfile(os.path.join(entry, 'DONE')):
            for so in glob.glob(os.path.join(entry, '*.so')):
                shutil.copy2(so, os.path.join(stage, 'pyiga'))
            os.utime(entry, None)
            info['cached'] = True
            return info
        # remove any stale build products in the stage (e.g. from another variant)
        for f in glob.glob(os.path.join(stage, 'pyiga', '*.so')):
            os.unlink(f)
        shutil.rmtree(os.path.join(stage, 'build'), ignore_errors=True)
        env = dict(os.environ)
        cflags, ldflags = VARIANT_FLAGS[variant]
        if cflags:
            env['CFLAGS'] = cflags; env['CXXFLAGS'] = cflags; env['LDFLAGS'] = ldflags
        env.pop('PYTHONPATH', None)
        t0 = time.time()
        r = subprocess.run([PY, 'setup.py', 'build_ext', '-i', '-j16'], cwd=stage, env=env,
                           capture_output=True, text=True, timeout=3600)
        info['build_s'] = round(time.time() - t0, 1)
        if log:
            with open(log, 'w') as f:
                f.write(r.stdout + '\n' + r.stderr)
        sos = glob.glob(os.path.join(stage, 'pyiga', '*.so'))
        if r.returncode != 0 or len(sos) < 7:
            raise BuildFailed('build_ext failed (rc=%s, %d modules):\n%s' % (r.returncode, len(sos), (r.stderr or '')[-3000:]))
        shutil.rmtree(os.path.join(stage, 'build'), ignore_errors=True)
        if use_cache:
            shutil.rmtree(entry, ignore_errors=True)
            os.makedirs(entry)
            for so in sos:
                shutil.copy2(so, entry)
            open(os.path.join(entry, 'DONE'), 'w').write(json.dumps(info))
            _lru_evict(socache, keep=4)
        return info
    finally:
        fcntl.flock(lockf, fcntl.LOCK_UN)
        lockf.close()

def jit_cache_dir(stage, variant):
    d = os.path.join(CACHE_ROOT, 'jit', '%s-%s' % (variant, jit_key(stage, variant)))
    return d

def seed_private_xdg(stage, variant, xdg):
    """Pre-populate a private XDG_CACHE_HOME with the JIT modules compiled earlier
    from exactly the same pyiga sources (hard links; never shared writable state)."""
    moddir = os.path.join(xdg, 'pyiga', 'modules')
    os.makedirs(moddir, exist_ok=True)
    if os.environ.get('VERIF_NO_JITCACHE'):
        return 0
    src = jit_cache_dir(stage, variant)
    n = 0
    if os.path.isdir(src):
        for so in glob.glob(os.path.join(src, '*.so')):
            dst = os.path.join(moddir, os.path.basename(so))
            if not os.path.exists(dst):
                try:
                    os.link(so, dst)
                except OSError:
                    shutil.copy2(so, dst)
                n += 1
        os.utime(src, None)
    return n

def harvest_private_xdg(stage, variant, xdg):
    """Publish JIT modules built during this run to the persistent cache."""
    if os.environ.get('VERIF_NO_JITCACHE'):
        return 0
    moddir = os.path.join(xdg, 'pyiga', 'modules')
    dst = jit_cache_dir(stage, variant)
    os.makedirs(dst, exist_ok=True)
    n = 0
    for so in glob.glob(os.path.join(moddir, '*.so')):
        t = os.path.join(dst, os.path.basename(so))
        if not os.path.exists(t):
            tmp = t + '.tmp%d' % os.getpid()
            try:
                shutil.copy2(so, tmp)
                os.link(tmp, t)
                n += 1
            except OSError:
                pass
            finally:
                try: os.unlink(tmp)
                except OSError: pass
    _lru_evict(os.path.join(CACHE_ROOT, 'jit'), keep=3)
    return n

def ensure_deps():
    """Return a directory containing icontract (installed offline from the wheelhouse)."""
    cands = [os.path.join(VERIF_ROOT, '.deps'), os.path.join(CACHE_ROOT, 'deps')]
    for c in cands:
        if os.path.isdir(os.path.join(c, 'icontract')):
            return c
    target = cands[1]
    os.makedirs(target, exist_ok=True)
    lockf = open(os.path.join(CACHE_ROOT, 'deps.lock'), 'w')
    fcntl.flock(lockf, fcntl.LOCK_EX)
    try:
        if not os.path.isdir(os.path.join(target, 'icontract')):
            r = subprocess.run([PY, '-m', 'pip', 'install', '-q', '--no-index', '--find-links', '/opt/veriftools/wheels',
                                '--target', target, 'icontract'], capture_output=True, text=True, timeout=600)
            if r.returncode != 0:
                raise RuntimeError('cannot install icontract offline: ' + r.stderr[-2000:])
    finally:
        fcntl.flock(lockf, fcntl.LOCK_UN); lockf.close()
    return target

def worker_env(stage, variant='plain', xdg=None, extra=None):
    env = dict(os.environ)
    for k in ('CFLAGS', 'CXXFLAGS', 'LDFLAGS', 'LD_PRELOAD'):
        env.pop(k, None)
    deps = ensure_deps()
    env['PYTHONPATH'] = os.pathsep.join([stage, os.path.join(VERIF_ROOT, 'lib'), VERIF_ROOT, deps])
    env[GUARD] = '1'
    env.setdefault('PYTHONHASHSEED', '0')
    env['XDG_CACHE_HOME'] = xdg or os.path.join(scratch_dir(), 'xdg')
    env['MPLBACKEND'] = 'Agg'
    env['OMP_NUM_THREADS'] = env.get('VERIF_OMP_THREADS', '1')
    env['OMP_WAIT_POLICY'] = 'passive'
    env['OPENBLAS_NUM_THREADS'] = '1'
    env['MKL_NUM_THREADS'] = '1'
    env.update(variant_env(variant))
    if extra:
        env.update(extra)
    return env
