"""Worker-side API: a Recorder collecting what the monitors observed.

A check module (checks/cNN.py) provides

    PROPERTY = 'Cnn'
    LEVEL = 'exploration'            # evidence level
    RULE = '...'                     # how cases are generated / what is non-trivial
    def cases(tier, seed):           # deterministic generator of JSON-able case descriptors
    def run_case(rec, case):         # executes one case against the real code, reports into rec
    MIN_NONTRIVIAL = {'quick': n, 'thorough': m}   # below this the run is inconclusive
    REQUIRED_COUNTERS = [...]        # monitor counters that must be > 0, else inconclusive

and optionally  VARIANTS (tier -> list of build variants), WORKERS, setup(rec), finish(rec).
"""
import json, hashlib, time, traceback, os, sys, math
from collections import Counter

MAX_SAMPLES = 6
MAX_VIOLATIONS_KEPT = 40

def jsonable(o):
    import numpy as np
    if isinstance(o, dict):
        return {str(k): jsonable(v) for k, v in o.items()}
    if isinstance(o, (list, tuple, set, frozenset)):
        return [jsonable(v) for v in (sorted(o, key=repr) if isinstance(o, (set, frozenset)) else o)]
    if isinstance(o, np.ndarray):
        return jsonable(o.tolist())
    if isinstance(o, (np.integer,)):
        return int(o)
    if isinstance(o, (np.floating,)):
        o = float(o)
    if isinstance(o, float):
        if math.isnan(o) or math.isinf(o):
            return repr(o)
        return o
    if isinstance(o, (np.bool_,)):
        return bool(o)
    if isinstance(o, (str, int, bool)) or o is None:
        return o
    return repr(o)

def case_hash(desc):
    return hashlib.sha1(json.dumps(jsonable(desc), sort_keys=True).encode()).hexdigest()[:16]

class Recorder:
    def __init__(self, prop):
        self.prop = prop
        self.evaluations = 0
        self.nontrivial = set()
        self.samples = []
        self.counters = Counter()
        self.violations = []
        self.n_violations = 0
        self.max_ratio = {}
        self.info = {}
        self.errors = []

    # -- cases ---------------------------------------------------------
    def case(self, desc, nontrivial=True, key=None):
        """Register one evaluated case. `key` (default: the descriptor) decides distinctness."""
        self.evaluations += 1
        if nontrivial:
            self.nontrivial.add(case_hash(desc if key is None else key))
        if len(self.samples) < MAX_SAMPLES:
            self.samples.append(jsonable(desc))

    def count(self, name, n=1):
        self.counters[name] += n

    def ratio(self, name, err, tol):
        """Track the largest observed error-to-tolerance ratio of a numerical oracle."""
        try:
            r = float(err) / float(tol) if tol > 0 else (0.0 if err == 0 else float('inf'))
        except Exception:
            return
        if not (r <= self.max_ratio.get(name, 0.0)):
            self.max_ratio[name] = r

    def check_close(self, name, err, tol, sig, case, witness=None):
        """Numerical oracle: err must be <= tol. Records ratio; reports a violation otherwise.
        Returns True if it held."""
        self.count('oracle:' + name)
        self.ratio(name, err, tol)
        ok = bool(err <= tol)      # NaN compares False -> violation
        if not ok:
            w = {'err': err, 'tol': tol}
            if witness: w.update(witness)
            self.violation(dict(sig, oracle=name), case, w)
        return ok

    def violation(self, sig, case, witness=None):
        """sig: mechanism signature (small dict of categorical features) used to match known
        findings; case: the JSON-able descriptor that replays it; witness: observed values."""
        self.n_violations += 1
        if len(self.violations) < MAX_VIOLATIONS_KEPT:
            self.violations.append({'sig': jsonable(sig), 'case': jsonable(case), 'witness': jsonable(witness or {})})

    def error(self, msg):
        if len(self.errors) < 20:
            self.errors.append(str(msg)[:2000])

    def dump(self):
        return {
            'prop': self.prop,
            'evaluations': self.evaluations,
            'nontrivial': sorted(self.nontrivial),
            'samples': self.samples,
            'counters': dict(self.counters),
            'violations': self.violations,
            'n_violations': self.n_violations,
            'max_ratio': self.max_ratio,
            'info': jsonable(self.info),
            'errors': self.errors,
        }

def merge(dumps):
    out = {'evaluations': 0, 'nontrivial': set(), 'samples': [], 'counters': Counter(), 'violations': [],
           'n_violations': 0, 'max_ratio': {}, 'info': {}, 'errors': []}
    for d in dumps:
        out['evaluations'] += d['evaluations']
        out['nontrivial'].update(d['nontrivial'])
        for s in d['samples']:
            if len(out['samples']) < MAX_SAMPLES and s not in out['samples']:
                out['samples'].append(s)
        out['counters'].update(d['counters'])
        out['violations'] += d['violations']
        out['n_violations'] += d['n_violations']
        for k, v in d['max_ratio'].items():
            if not (v <= out['max_ratio'].get(k, 0.0)):
                out['max_ratio'][k] = v
        for k, v in d.get('info', {}).items():
            out['info'].setdefault(k, v)
        out['errors'] += d.get('errors', [])
    return out

def exc_sig(e):
    """Short signature of an exception for classification."""
    tb = traceback.extract_tb(e.__traceback__)
    where = ''
    for fr in reversed(tb):
        if '/pyiga/' in fr.filename:
            where = '%s:%s' % (os.path.basename(fr.filename), fr.name)
            break
    return {'exc': type(e).__name__, 'where': where}

class PyigaRaised(Exception):
    pass

def guarded(rec, case, sig, fn, *args, **kw):
    """Call the real code; an exception raised from inside pyiga (or its compiled modules) on an
    admissible input is an observation (violation with an exception signature), any other
    exception propagates as a harness error.  Returns (ok, result)."""
    try:
        return True, fn(*args, **kw)
    except Exception as e:
        tb = traceback.extract_tb(e.__traceback__)
        here = os.path.normpath(os.path.join(os.path.dirname(__file__), '..', '..'))
        inner = os.path.normpath(tb[-1].filename) if tb else ''
        # the exception belongs to the code under test unless its innermost Python frame is a
        # harness file other than this call site (a compiled pyiga function has no frame of its own)
        in_pyiga = (not inner.startswith(here)) or len(tb) <= 1
        if in_pyiga:
            s = dict(sig); s.update(exc_sig(e))
            rec.violation(s, case, {'message': str(e)[:500], 'trace': [('%s:%d:%s' % (os.path.basename(fr.filename), fr.lineno, fr.name)) for fr in tb[-6:]]})
            return False, None
        raise
